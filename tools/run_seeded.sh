#!/bin/bash
# Applies every seeded change under seeded/ to the repository under test, runs the quick check of
# the property it targets (or the properties given in meta.json "checks"), expects a violation,
# and undoes the change. Meant to be run on private snapshots:
#   vp run --with-repo -- tools/run_seeded.sh          (uses $VP_RUN_REPO)
# Never run it against /repo while other checks are running.
cd "$(dirname "$0")/.."
REPO="${VP_RUN_REPO:-/repo}"
mkdir -p build
only="${1:-}"
ok=0; miss=0
for d in seeded/*/; do
  id=$(basename $d)
  [ -n "$only" ] && [[ "$id" != $only* ]] && continue
  # SEEDED_MATCH: extended regular expression on the directory name (e.g. '-r[345]-')
  [ -n "${SEEDED_MATCH:-}" ] && ! [[ "$id" =~ $SEEDED_MATCH ]] && continue
  prop=$(python3 -c "import json;print(json.load(open('$d/meta.json'))['property'])")
  # some changes are, by their nature, only visible to another property's check
  alt=$(python3 -c "import json;print(' '.join(json.load(open('$d/meta.json')).get('checks',[])))")
  git -C $REPO checkout -q -- . ; 
  if ! git -C $REPO apply "$(pwd)/$d/patch.diff" 2>/dev/null; then echo "$id: PATCH DOES NOT APPLY"; continue; fi
  detected=no
  for p in ${alt:-$prop}; do
    ./check $p quick > build/seeded-$id-$p.log 2>&1; rc=$?
    if [ $rc -eq 1 ]; then detected="$p"; break; fi
  done
  git -C $REPO checkout -q -- .
  expect=$(python3 -c "import json;print(json.load(open('$d/meta.json')).get('detected',True))"); if [ "$detected" = no ] && [ "$expect" = False ]; then echo "$id: not detected (recorded limit)"; elif [ "$detected" = no ]; then miss=$((miss+1)); echo "$id: MISSED (checks: ${alt:-$prop})"; else ok=$((ok+1)); echo "$id: detected by $detected ($(grep -m1 signature build/seeded-$id-$detected.log | sed 's/.*signature: //'))"; fi
done
echo "SUMMARY detected=$ok missed=$miss"
