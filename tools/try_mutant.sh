#!/bin/bash
# usage: tools/try_mutant.sh <worktree> <n> <property-id>...
# 1. in the scratch worktree: suite passes with patch n, demo n fails with it, passes without it
# 2. in /repo: apply patch n, run the quick checks of the given properties, undo
wt=$1; n=$2; shift 2
export CARGO_NET_OFFLINE=true
cd $wt || exit 2
git checkout -q -- src 2>/dev/null
git apply --check patch$n.diff || { echo "PATCH DOES NOT APPLY in worktree"; exit 2; }
git apply patch$n.diff
suite=$(cargo test --offline --lib 2>&1 | grep -E "^test result" | head -1)
demo_with=$(cargo test --offline --features test-utils --test demo_$n 2>&1 | grep -E "^test result" | head -1)
git checkout -q -- src
demo_without=$(cargo test --offline --features test-utils --test demo_$n 2>&1 | grep -E "^test result" | head -1)
echo "suite with patch : $suite"
echo "demo with patch  : $demo_with"
echo "demo w/o patch   : $demo_without"
cd /repo
git apply --check $wt/patch$n.diff || { echo "PATCH DOES NOT APPLY in /repo"; exit 2; }
git apply $wt/patch$n.diff
for id in "$@"; do
  out=$(cd /verif && ./check $id quick 2>&1)
  rc=$?
  echo "== $id rc=$rc"; echo "$out" | grep -E "VIOLATION|signature|quick:|HARNESS|schedules" | head -8
done
git -C /repo checkout -q -- .
git -C /repo status --short | head -3
