#!/usr/bin/env python3
"""Derives a shadow manifest of /repo under /verif/build/shadow: same package name and features,
[lib] path = /repo/src/lib.rs, bench/example/dev-dependency sections dropped, shuttle added.
/repo's Cargo.toml and Cargo.lock stay untouched; the check always compiles /repo's sources."""
import os, sys, shutil
repo = os.environ.get('REPO_ROOT', '/repo')
src = open(repo + '/Cargo.toml').read().splitlines()
out, skip = [], False
for line in src:
    s = line.strip()
    if s.startswith('[') and s.endswith(']'):
        name = s.strip('[]').strip()
        skip = name in ('bench', 'example', 'dev-dependencies', 'lib', 'lints.rust') or name.startswith('dev-dependencies') or name.startswith('lints')
    if not skip:
        out.append(line)
out.append('')
out.append('[lib]')
out.append('name = "cosmian_cover_crypt"')
out.append('path = "' + repo + '/src/lib.rs"')
out.append('')
out.append('[lints.rust]')
out.append("unexpected_cfgs = { level = \"allow\", check-cfg = ['cfg(cosmian_cover_crypt_verif)'] }")
text = '\n'.join(out)
# add shuttle to [dependencies]
text = text.replace('[dependencies]', '[dependencies]\nshuttle = "0.9"', 1)
root = os.environ.get('VERIF_ROOT', '/verif')
os.makedirs(root + '/build/shadow', exist_ok=True)
p = root + '/build/shadow/Cargo.toml'
if not os.path.exists(p) or open(p).read() != text:
    open(p, 'w').write(text)
