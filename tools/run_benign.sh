#!/bin/bash
# False-alarm test: applies each behaviour-preserving change under benign/ to the repository
# under test and runs EVERY quick check; none may raise an alarm (exit 1) or a harness error.
#   vp run --with-repo -- tools/run_benign.sh
cd "$(dirname "$0")/.."
REPO="${VP_RUN_REPO:-/repo}"
mkdir -p build
bad=0
for d in benign/${BENIGN_GLOB:-benign*}.diff; do
  git -C $REPO checkout -q -- .
  git -C $REPO apply "$(pwd)/$d" || { echo "$d: DOES NOT APPLY"; continue; }
  for p in C01 C02 C03 C04 C05 C06 C07 C08 C09 C10 C11 C12 C13 C14 C16 C17 C18 C19; do
    ./check $p quick > build/benign-$(basename $d .diff)-$p.log 2>&1; rc=$?
    if [ $rc -ne 0 ]; then bad=$((bad+1)); echo "$(basename $d) $p: ALARM rc=$rc $(grep -m2 -E 'signature|HARNESS' build/benign-$(basename $d .diff)-$p.log)"; fi
  done
  echo "$(basename $d): done"
  git -C $REPO checkout -q -- .
done
echo "SUMMARY alarms=$bad"
