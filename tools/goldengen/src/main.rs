//! Generates the golden objects of C13 with the PINNED release of cover_crypt (a worktree of
//! /repo at 8f3c295 under /var/tmp/pinned): durable state written by the old version, to be read
//! and used by the current tree. Run once per feature configuration; output is committed.
use cosmian_cover_crypt::{
    api::Covercrypt, traits::KemAc, AccessPolicy, EncryptedHeader, EncryptionHint, QualifiedAttribute,
};
use cosmian_crypto_core::{bytes_ser_de::Serializable, reexport::rand_core::SeedableRng, CsRng};

fn hex(b: &[u8]) -> String {
    b.iter().map(|x| format!("{x:02x}")).collect()
}

fn main() {
    let dir = std::env::args().nth(1).expect("output dir");
    std::fs::create_dir_all(&dir).unwrap();
    let w = |name: &str, b: &[u8]| std::fs::write(format!("{dir}/{name}"), b).unwrap();
    let cc = Covercrypt::default();
    *cc.rng() = CsRng::from_seed([42u8; 32]);
    let ap = |s: &str| AccessPolicy::parse(s).unwrap();

    // empty structure
    let (msk_e, mpk_e) = cc.setup().unwrap();
    w("empty_msk.bin", &msk_e.serialize().unwrap());
    w("empty_mpk.bin", &mpk_e.serialize().unwrap());

    let (mut msk, _) = cc.setup().unwrap();
    let s = &mut msk.access_structure;
    s.add_hierarchy("SEC".into()).unwrap();
    s.add_attribute(QualifiedAttribute::new("SEC", "LOW"), EncryptionHint::Classic, None).unwrap();
    s.add_attribute(QualifiedAttribute::new("SEC", "MID"), EncryptionHint::Hybridized, Some("LOW")).unwrap();
    s.add_attribute(QualifiedAttribute::new("SEC", "TOP"), EncryptionHint::Hybridized, Some("MID")).unwrap();
    s.add_anarchy("DPT".into()).unwrap();
    s.add_attribute(QualifiedAttribute::new("DPT", "FIN"), EncryptionHint::Classic, None).unwrap();
    s.add_attribute(QualifiedAttribute::new("DPT", "HR"), EncryptionHint::Hybridized, None).unwrap();
    s.add_attribute(QualifiedAttribute::new("DPT", "MKG"), EncryptionHint::Classic, None).unwrap();
    let mpk0 = cc.update_msk(&mut msk).unwrap();
    w("mpk0.bin", &mpk0.serialize().unwrap());

    let user_pols = ["SEC::TOP && DPT::FIN", "SEC::LOW && DPT::HR", "DPT::MKG", "SEC::MID"];
    let mut usks: Vec<_> = user_pols.iter().map(|p| cc.generate_user_secret_key(&mut msk, &ap(p)).unwrap()).collect();

    let mut encs = vec![];
    let mut push = |name: &str, pol: &str, under: &str, sec: &[u8], bytes: &[u8]| {
        std::fs::write(format!("{dir}/{name}"), bytes).unwrap();
        encs.push(serde_json::json!({"file": name, "policy": pol, "under": under, "secret": hex(sec)}));
    };
    let (s0, e0) = cc.encaps(&mpk0, &ap("SEC::LOW && DPT::FIN")).unwrap();
    push("enc0.bin", "SEC::LOW && DPT::FIN", "mpk0", &s0[..], &e0.serialize().unwrap());
    let (s1, e1) = cc.encaps(&mpk0, &ap("SEC::TOP && DPT::HR")).unwrap();
    push("enc1.bin", "SEC::TOP && DPT::HR", "mpk0", &s1[..], &e1.serialize().unwrap());

    let mpk1 = cc.rekey(&mut msk, &ap("DPT::FIN")).unwrap();
    let (s2, e2) = cc.encaps(&mpk1, &ap("DPT::FIN")).unwrap();
    push("enc2.bin", "DPT::FIN", "mpk1", &s2[..], &e2.serialize().unwrap());
    // user 0 refreshes keeping old secrets: chains of unequal length
    cc.refresh_usk(&mut msk, &mut usks[0], true).unwrap();
    let _ = cc.rekey(&mut msk, &ap("SEC::MID")).unwrap();
    msk.access_structure.disable_attribute(&QualifiedAttribute::new("DPT", "MKG")).unwrap();
    let mpk2 = cc.update_msk(&mut msk).unwrap();
    w("mpk2.bin", &mpk2.serialize().unwrap());
    let (s3, e3) = cc.encaps(&mpk2, &ap("SEC::MID || DPT::HR")).unwrap();
    push("enc3.bin", "SEC::MID || DPT::HR", "mpk2", &s3[..], &e3.serialize().unwrap());
    let (s4, e4) = cc.encaps(&mpk2, &ap("*")).unwrap();
    push("enc4.bin", "*", "mpk2", &s4[..], &e4.serialize().unwrap());
    let (hs, h) = EncryptedHeader::generate(&cc, &mpk2, &ap("SEC::TOP && DPT::FIN"), Some(b"golden metadata"), Some(b"golden aad")).unwrap();
    w("header0.bin", &h.serialize().unwrap());
    let (hs1, h1) = EncryptedHeader::generate(&cc, &mpk2, &ap("DPT::HR"), None, None).unwrap();
    w("header1.bin", &h1.serialize().unwrap());
    usks.push(cc.generate_user_secret_key(&mut msk, &ap("SEC::TOP")).unwrap());
    for (i, u) in usks.iter().enumerate() {
        w(&format!("usk{i}.bin"), &u.serialize().unwrap());
    }
    w("msk.bin", &msk.serialize().unwrap());
    w("structure.bin", &msk.access_structure.serialize().unwrap());
    // a second, small master key whose attribute ids have a gap (an attribute was deleted):
    // ids in use are not 0..n-1, so a reader of this legacy layout that rebuilds the id counter
    // from the *number* of attributes, or from the highest id without adding one, collides
    {
        let (mut gm, _) = cc.setup().unwrap();
        let s = &mut gm.access_structure;
        s.add_anarchy("G".into()).unwrap();
        s.add_attribute(QualifiedAttribute::new("G", "g0"), EncryptionHint::Classic, None).unwrap();
        s.add_attribute(QualifiedAttribute::new("G", "g1"), EncryptionHint::Classic, None).unwrap();
        s.add_attribute(QualifiedAttribute::new("G", "g2"), EncryptionHint::Classic, None).unwrap();
        s.del_attribute(&QualifiedAttribute::new("G", "g0")).unwrap();
        let gmpk = cc.update_msk(&mut gm).unwrap();
        let gk1 = cc.generate_user_secret_key(&mut gm, &ap("G::g1")).unwrap();
        let gk2 = cc.generate_user_secret_key(&mut gm, &ap("G::g2")).unwrap();
        let (gs, ge) = cc.encaps(&gmpk, &ap("G::g2")).unwrap();
        w("gap_msk.bin", &gm.serialize().unwrap());
        w("gap_usk1.bin", &gk1.serialize().unwrap());
        w("gap_usk2.bin", &gk2.serialize().unwrap());
        w("gap_enc2.bin", &ge.serialize().unwrap());
        w("gap_secret2.bin", &gs[..]);
    }
    let manifest = serde_json::json!({
        "written_by": "cosmian_cover_crypt 15.0.0 at the pinned commit 8f3c295 (tools/goldengen)",
        "user_policies": ["SEC::TOP && DPT::FIN (refreshed with keep after rekey DPT::FIN)", "SEC::LOW && DPT::HR", "DPT::MKG", "SEC::MID", "SEC::TOP (generated last)"],
        "encapsulations": encs,
        "headers": [
            {"file": "header0.bin", "policy": "SEC::TOP && DPT::FIN", "secret": hex(&hs[..]), "metadata": hex(b"golden metadata"), "aad": hex(b"golden aad")},
            {"file": "header1.bin", "policy": "DPT::HR", "secret": hex(&hs1[..]), "metadata": "", "aad": ""}
        ],
        "history": "setup; SEC hierarchy LOW(classic)<MID(hybrid)<TOP(hybrid); DPT anarchy FIN(classic), HR(hybrid), MKG(classic); update -> mpk0; 4 keys; enc0, enc1 under mpk0; rekey DPT::FIN -> mpk1; enc2 under mpk1; refresh key 0 (keep); rekey SEC::MID; disable DPT::MKG; update -> mpk2; enc3, enc4, headers under mpk2; key 4"
    });
    std::fs::write(format!("{dir}/manifest.json"), serde_json::to_string_pretty(&manifest).unwrap()).unwrap();
}
