#!/bin/bash
cd "$(dirname "$0")"
./build.sh || exit 2
if [ "$1" = "--replay" ]; then exec ./target/release/ccshuttle replay "$2"; fi
exec ./target/release/ccshuttle run "${2:-quick}"
