#!/bin/bash
# Builds ccshuttle against /repo's working tree through the shadow manifest, hook enabled.
set -e
export CARGO_NET_OFFLINE=true
cd "$(dirname "$0")"
python3 ../tools/mkshadow.py
mkdir -p ../build
RUSTFLAGS="--cfg cosmian_cover_crypt_verif" cargo build --release --offline 2>../build/build-shuttle.log || { tail -30 ../build/build-shuttle.log; echo "HARNESS ERROR: shuttle build failed" >&2; exit 2; }
