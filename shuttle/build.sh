#!/bin/bash
# Builds ccshuttle against /repo's working tree through the shadow manifest, hook enabled.
set -e
export CARGO_NET_OFFLINE=true
python3 /verif/tools/mkshadow.py
cd /verif/shuttle
mkdir -p /verif/build
RUSTFLAGS="--cfg cosmian_cover_crypt_verif" cargo build --release --offline 2>/verif/build/build-shuttle.log || { tail -30 /verif/build/build-shuttle.log; echo "HARNESS ERROR: shuttle build failed" >&2; exit 2; }
