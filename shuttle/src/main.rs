//! ccshuttle — thread-schedule simulation of a shared `Covercrypt` instance (C19, and the
//! cross-thread half of C16). The library is compiled with `--cfg cosmian_cover_crypt_verif`,
//! which makes the instance's RNG mutex a `shuttle::sync::Mutex`: every lock/unlock becomes a
//! scheduling point owned by shuttle's seeded schedulers. Workload and SUT randomness derive from
//! `shuttle::rand`, so a persisted schedule replays the whole execution.
//!
//!   ccshuttle run <quick|thorough>        explore; on failure writes a replay file, exit 1
//!   ccshuttle replay <file.json>          re-execute a persisted failing schedule

use std::collections::HashSet;
use std::panic::{catch_unwind, AssertUnwindSafe};
use std::sync::atomic::{AtomicU64, Ordering};
use std::time::Instant;

use cosmian_cover_crypt::{
    api::Covercrypt,
    cc_keygen,
    traits::{KemAc, PkeAc},
    AccessPolicy, EncryptedHeader, MasterPublicKey, MasterSecretKey, UserSecretKey, XEnc,
};
use cosmian_crypto_core::{bytes_ser_de::Serializable, reexport::rand_core::SeedableRng, Aes256Gcm, CsRng};
use shuttle::rand::RngCore;
use shuttle::scheduler::{PctScheduler, RandomScheduler};
use shuttle::sync::{Arc, Mutex};
use shuttle::{thread, Config, FailurePersistence, MaxSteps, Runner};

const USER_POLICIES: &[&str] = &["SEC::TOP && DPT::FIN", "SEC::LOW && DPT::MKG", "DPT::HR", "SEC::TOP"];
const ENC_POLICIES: &[&str] = &[
    "DPT::FIN && SEC::TOP",
    "DPT::MKG && SEC::LOW",
    "DPT::HR",
    "SEC::LOW",
    "DPT::FIN || DPT::HR",
    "*",
    "SEC::TOP",
];

// --- interposed entropy: fixed stream, so hash-map orders do not vary between processes ---
static ENTROPY: AtomicU64 = AtomicU64::new(0x1234_5678_9abc_def0);

/// # Safety
/// libc contract of getrandom.
#[no_mangle]
pub unsafe extern "C" fn getrandom(buf: *mut u8, len: usize, _flags: u32) -> isize {
    let mut i = 0;
    while i < len {
        let mut x = ENTROPY.fetch_add(0x9E37_79B9_7F4A_7C15, Ordering::Relaxed);
        x = (x ^ (x >> 30)).wrapping_mul(0xBF58_476D_1CE4_E5B9);
        x = (x ^ (x >> 27)).wrapping_mul(0x94D0_49BB_1331_11EB);
        x ^= x >> 31;
        for b in x.to_le_bytes() {
            if i < len {
                *buf.add(i) = b;
                i += 1;
            }
        }
    }
    len as isize
}

static ITER: AtomicU64 = AtomicU64::new(0);
/// Order in which operations of the current execution started: (thread, operation). Plain std
/// mutex: it adds no scheduling point (shuttle runs its tasks on one OS thread at a time).
static OPLOG: std::sync::Mutex<Vec<(u8, u8)>> = std::sync::Mutex::new(Vec::new());
/// Fingerprints of executions: (number of threads, observed interleaving of operation starts).
static FINGERPRINTS: std::sync::Mutex<Vec<(u64, bool)>> = std::sync::Mutex::new(Vec::new());
static OPS: AtomicU64 = AtomicU64::new(0);
static THREADS: AtomicU64 = AtomicU64::new(0);
static LOCKED_CALLS: AtomicU64 = AtomicU64::new(0);

struct Fixture {
    cc: Covercrypt,
    mpk: MasterPublicKey,
    msk_bytes: Vec<u8>,
    usks: Vec<UserSecretKey>,
    /// (policy index, encapsulation, secret, which shared user keys open it)
    encs: Vec<(usize, XEnc, Vec<u8>, Vec<bool>)>,
    pke: Vec<(usize, (XEnc, Vec<u8>), Vec<u8>)>,
    headers: Vec<(usize, EncryptedHeader, Vec<u8>, Vec<u8>)>,
    /// registry of values that must never repeat, across all threads
    fresh: Mutex<HashSet<Vec<u8>>>,
}

fn xorshift(s: &mut u64) -> u64 {
    *s ^= *s << 13;
    *s ^= *s >> 7;
    *s ^= *s << 17;
    *s
}

fn fresh(fx: &Fixture, class: &str, v: &[u8]) {
    let mut k = class.as_bytes().to_vec();
    k.push(b':');
    k.extend_from_slice(v);
    let inserted = fx.fresh.lock().unwrap().insert(k);
    assert!(inserted, "C16-across-threads: {class} repeated");
}

fn build_fixture(seed: u64) -> Fixture {
    let cc = Covercrypt::default();
    let mut s = [0u8; 32];
    s[..8].copy_from_slice(&seed.to_le_bytes());
    *cc.rng() = CsRng::from_seed(s);
    let (mut msk, mpk) = cc_keygen(&cc, false).expect("keygen");
    let usks: Vec<UserSecretKey> = USER_POLICIES
        .iter()
        .map(|p| cc.generate_user_secret_key(&mut msk, &AccessPolicy::parse(p).unwrap()).expect("usk"))
        .collect();
    let mut encs = vec![];
    for (pi, p) in ENC_POLICIES.iter().enumerate().take(5) {
        let (sec, enc) = cc.encaps(&mpk, &AccessPolicy::parse(p).unwrap()).expect("encaps");
        // sequential baseline: what each call returns alone
        let opens: Vec<bool> = usks.iter().map(|u| cc.decaps(u, &enc).expect("decaps").is_some()).collect();
        encs.push((pi, enc, sec.to_vec(), opens));
    }
    let mut pke = vec![];
    for (pi, p) in ENC_POLICIES.iter().enumerate().take(2) {
        let ptx = format!("plaintext for {p}").into_bytes();
        let c = PkeAc::<{ Aes256Gcm::KEY_LENGTH }, Aes256Gcm>::encrypt(&cc, &mpk, &AccessPolicy::parse(p).unwrap(), &ptx).expect("pke");
        pke.push((pi, c, ptx));
    }
    let mut headers = vec![];
    for (pi, p) in ENC_POLICIES.iter().enumerate().take(2) {
        let md = format!("metadata {p}").into_bytes();
        let (sec, h) = EncryptedHeader::generate(&cc, &mpk, &AccessPolicy::parse(p).unwrap(), Some(&md), Some(b"aad")).expect("header");
        headers.push((pi, h, sec.to_vec(), md));
    }
    let msk_bytes = msk.serialize().expect("msk bytes").to_vec();
    Fixture { cc, mpk, msk_bytes, usks, encs, pke, headers, fresh: Mutex::new(HashSet::new()) }
}

/// Name-level expectation for the fixed test structure: does user policy `u` open policy `e`?
fn expect_open(u: usize, e: usize) -> bool {
    // users: 0 = TOP&&FIN, 1 = LOW&&MKG, 2 = HR, 3 = TOP
    // enc:   0 = FIN&&TOP, 1 = MKG&&LOW, 2 = HR, 3 = LOW, 4 = FIN||HR, 5 = *, 6 = TOP
    matches!(
        (u, e),
        (0, 0) | (0, 3) | (0, 4) | (0, 5) | (0, 6)
            | (1, 1) | (1, 3) | (1, 5)
            | (2, 2) | (2, 4) | (2, 5) | (2, 3) | (2, 6)
            | (3, 0) | (3, 1) | (3, 2) | (3, 3) | (3, 4) | (3, 5) | (3, 6)
    )
}

fn thread_program(fx: Arc<Fixture>, tid: usize, mut seed: u64, n_ops: usize) {
    // private key objects of this thread ("distinct key objects")
    let mut msk = MasterSecretKey::deserialize(&fx.msk_bytes).expect("msk");
    let mut my_usk: Option<(usize, UserSecretKey)> = None;
    let mut rekeyed = false;
    let cc = &fx.cc;
    for _ in 0..n_ops {
        OPS.fetch_add(1, Ordering::Relaxed);
        let op = xorshift(&mut seed) % 13;
        OPLOG.lock().unwrap().push((tid as u8, op as u8));
        // an extra scheduling point between operations
        thread::sleep(std::time::Duration::from_millis(0));
        match op {
            0 | 1 => {
                let e = (xorshift(&mut seed) % ENC_POLICIES.len() as u64) as usize;
                let (sec, enc) = cc.encaps(&fx.mpk, &AccessPolicy::parse(ENC_POLICIES[e]).unwrap()).expect("C19: encaps failed");
                LOCKED_CALLS.fetch_add(1, Ordering::Relaxed);
                fresh(&fx, "secret", &sec[..]);
                let b = enc.serialize().unwrap();
                fresh(&fx, "tag", &b[..16]);
                let u = (xorshift(&mut seed) % fx.usks.len() as u64) as usize;
                let r = cc.decaps(&fx.usks[u], &enc).expect("C19: decaps failed");
                LOCKED_CALLS.fetch_add(1, Ordering::Relaxed);
                assert_eq!(r.is_some(), expect_open(u, e), "C19: fresh encapsulation for {} user {}", ENC_POLICIES[e], USER_POLICIES[u]);
                if let Some(s) = r {
                    assert_eq!(s.to_vec(), sec.to_vec(), "C19: decaps returned another secret");
                }
            }
            2 | 3 => {
                let i = (xorshift(&mut seed) % fx.encs.len() as u64) as usize;
                let u = (xorshift(&mut seed) % fx.usks.len() as u64) as usize;
                let (_, enc, sec, opens) = &fx.encs[i];
                let r = cc.decaps(&fx.usks[u], enc).expect("C19: decaps failed");
                LOCKED_CALLS.fetch_add(1, Ordering::Relaxed);
                assert_eq!(r.is_some(), opens[u], "C19: stored encapsulation {i} user {u} differs from the sequential result");
                if let Some(s) = r {
                    assert_eq!(&s.to_vec(), sec, "C19: decaps returned another secret");
                }
            }
            4 => {
                let e = (xorshift(&mut seed) % 3) as usize;
                let ptx = vec![tid as u8; 1 + (xorshift(&mut seed) % 40) as usize];
                let c = PkeAc::<{ Aes256Gcm::KEY_LENGTH }, Aes256Gcm>::encrypt(cc, &fx.mpk, &AccessPolicy::parse(ENC_POLICIES[e]).unwrap(), &ptx).expect("C19: pke encrypt failed");
                LOCKED_CALLS.fetch_add(2, Ordering::Relaxed);
                fresh(&fx, "pke-nonce", &c.1[..12]);
                let u = (xorshift(&mut seed) % fx.usks.len() as u64) as usize;
                let r = PkeAc::<{ Aes256Gcm::KEY_LENGTH }, Aes256Gcm>::decrypt(cc, &fx.usks[u], &c).expect("C19: pke decrypt failed");
                assert_eq!(r.is_some(), expect_open(u, e), "C19: pke round trip authorisation");
                if let Some(p) = r {
                    assert_eq!(p.to_vec(), ptx, "C19: pke plaintext");
                }
            }
            5 => {
                let i = (xorshift(&mut seed) % fx.pke.len() as u64) as usize;
                let u = (xorshift(&mut seed) % fx.usks.len() as u64) as usize;
                let (pi, c, ptx) = &fx.pke[i];
                let r = PkeAc::<{ Aes256Gcm::KEY_LENGTH }, Aes256Gcm>::decrypt(cc, &fx.usks[u], c).expect("C19: pke decrypt failed");
                assert_eq!(r.is_some(), expect_open(u, *pi), "C19: stored pke authorisation");
                if let Some(p) = r {
                    assert_eq!(&p.to_vec(), ptx, "C19: stored pke plaintext");
                }
            }
            6 => {
                let e = (xorshift(&mut seed) % 3) as usize;
                let md = vec![0xA0 | tid as u8; (xorshift(&mut seed) % 33) as usize];
                let (sec, h) = EncryptedHeader::generate(cc, &fx.mpk, &AccessPolicy::parse(ENC_POLICIES[e]).unwrap(), Some(&md), Some(b"x")).expect("C19: header generate failed");
                LOCKED_CALLS.fetch_add(2, Ordering::Relaxed);
                fresh(&fx, "secret", &sec[..]);
                if let Some(m) = &h.encrypted_metadata {
                    fresh(&fx, "metadata-nonce", &m[..12]);
                }
                let u = (xorshift(&mut seed) % fx.usks.len() as u64) as usize;
                let r = h.decrypt(cc, &fx.usks[u], Some(b"x")).expect("C19: header decrypt failed");
                assert_eq!(r.is_some(), expect_open(u, e), "C19: header authorisation");
                if let Some(c) = r {
                    assert_eq!(c.secret.to_vec(), sec.to_vec(), "C19: header secret");
                    assert_eq!(c.metadata.unwrap_or_default(), md, "C19: header metadata");
                }
            }
            7 => {
                let i = (xorshift(&mut seed) % fx.headers.len() as u64) as usize;
                let u = (xorshift(&mut seed) % fx.usks.len() as u64) as usize;
                let (pi, h, sec, md) = &fx.headers[i];
                let r = h.decrypt(cc, &fx.usks[u], Some(b"aad")).expect("C19: header decrypt failed");
                assert_eq!(r.is_some(), expect_open(u, *pi), "C19: stored header authorisation");
                if let Some(c) = r {
                    assert_eq!(&c.secret.to_vec(), sec, "C19: stored header secret");
                    assert_eq!(&c.metadata.unwrap_or_default(), md, "C19: stored header metadata");
                }
            }
            8 => {
                // key generation on this thread's MSK
                let u = (xorshift(&mut seed) % USER_POLICIES.len() as u64) as usize;
                let k = cc.generate_user_secret_key(&mut msk, &AccessPolicy::parse(USER_POLICIES[u]).unwrap()).expect("C19: keygen failed");
                LOCKED_CALLS.fetch_add(1, Ordering::Relaxed);
                let kb = k.serialize().unwrap();
                fresh(&fx, "user-id", &kb[1..65]);
                if rekeyed {
                    // this thread's MSK moved on: check against a fresh encapsulation under its MPK
                    let e = (xorshift(&mut seed) % ENC_POLICIES.len() as u64) as usize;
                    let mpk_now = msk.mpk().expect("mpk");
                    let (sec, enc) = cc.encaps(&mpk_now, &AccessPolicy::parse(ENC_POLICIES[e]).unwrap()).expect("C19: encaps failed");
                    let r = cc.decaps(&k, &enc).expect("C19: decaps failed");
                    assert_eq!(r.is_some(), expect_open(u, e), "C19: generated key authorisation (fresh)");
                    if let Some(s) = r {
                        assert_eq!(s.to_vec(), sec.to_vec(), "C19: generated key secret (fresh)");
                    }
                } else {
                    let i = (xorshift(&mut seed) % fx.encs.len() as u64) as usize;
                    let (pi, enc, sec, _) = &fx.encs[i];
                    let r = cc.decaps(&k, enc).expect("C19: decaps failed");
                    assert_eq!(r.is_some(), expect_open(u, *pi), "C19: generated key authorisation");
                    if let Some(s) = r {
                        assert_eq!(&s.to_vec(), sec, "C19: generated key secret");
                    }
                }
                my_usk = Some((u, k));
            }
            9 => {
                // rekey on this thread's MSK, refresh this thread's key
                let mpk2 = cc.rekey(&mut msk, &AccessPolicy::parse("DPT::FIN").unwrap()).expect("C19: rekey failed");
                LOCKED_CALLS.fetch_add(1, Ordering::Relaxed);
                rekeyed = true;
                let (sec, enc) = cc.encaps(&mpk2, &AccessPolicy::parse("DPT::FIN && SEC::TOP").unwrap()).expect("C19: encaps failed");
                fresh(&fx, "secret", &sec[..]);
                // stale shared key must not open it
                let r = cc.decaps(&fx.usks[0], &enc).expect("C19: decaps failed");
                assert!(r.is_none(), "C19: stale key opens an encapsulation under a re-keyed right");
                if let Some((u, k)) = my_usk.as_mut() {
                    let keep = xorshift(&mut seed) % 2 == 0;
                    cc.refresh_usk(&mut msk, k, keep).expect("C19: refresh failed");
                    LOCKED_CALLS.fetch_add(1, Ordering::Relaxed);
                    let r = cc.decaps(k, &enc).expect("C19: decaps failed");
                    assert_eq!(r.is_some(), expect_open(*u, 0), "C19: refreshed key authorisation");
                    if let Some(s) = r {
                        assert_eq!(s.to_vec(), sec.to_vec(), "C19: refreshed key secret");
                    }
                }
            }
            11 | 12 => {
                // calls that fail when made alone must fail here too, and must not disturb others
                let r = cc.encaps(&fx.mpk, &AccessPolicy::parse("DPT::NOPE && SEC::TOP").unwrap());
                assert!(r.is_err(), "C19: encaps for an unknown attribute succeeded");
                let r = cc.encaps(&fx.mpk, &AccessPolicy::parse("DPT::FIN && DPT::HR").unwrap());
                assert!(r.is_err(), "C19: encaps for two attributes of one dimension succeeded");
                let r = cc.generate_user_secret_key(&mut msk, &AccessPolicy::parse("NOPE::X").unwrap());
                assert!(r.is_err(), "C19: keygen for an unknown dimension succeeded");
                LOCKED_CALLS.fetch_add(3, Ordering::Relaxed);
            }
            _ => {
                // re-encapsulation with this thread's MSK (only meaningful before it was re-keyed
                // past the stored encapsulation: failure to open is reported as Err, both fine)
                let i = (xorshift(&mut seed) % fx.encs.len() as u64) as usize;
                let (_, enc, sec, _) = &fx.encs[i];
                if let Ok(mpk_now) = msk.mpk() {
                    if let Ok((s2, e2)) = cc.recaps(&msk, &mpk_now, enc) {
                        LOCKED_CALLS.fetch_add(1, Ordering::Relaxed);
                        assert_ne!(&s2.to_vec(), sec, "C19: recaps kept the old secret");
                        fresh(&fx, "secret", &s2[..]);
                        let _ = e2;
                    }
                }
            }
        }
    }
}

fn scenario() {
    ITER.fetch_add(1, Ordering::Relaxed);
    let mut rng = shuttle::rand::thread_rng();
    let seed = rng.next_u64();
    let fx = Arc::new(build_fixture(seed));
    let n_threads = 2 + (rng.next_u64() % 3) as usize;
    let mut hs = vec![];
    for t in 0..n_threads {
        THREADS.fetch_add(1, Ordering::Relaxed);
        let fx2 = fx.clone();
        let s = rng.next_u64() | 1;
        let n_ops = 2 + (rng.next_u64() % 4) as usize;
        hs.push(thread::spawn(move || thread_program(fx2, t, s, n_ops)));
    }
    for h in hs {
        h.join().expect("C19: a thread panicked");
    }
    // fingerprint of this execution = the observed interleaving; it is "interleaved" when some
    // thread's operations were interrupted by another thread's
    let log = std::mem::take(&mut *OPLOG.lock().unwrap());
    let mut h = 0xcbf29ce484222325u64 ^ n_threads as u64;
    let mut finished: Vec<u8> = vec![];
    let mut interleaved = false;
    let mut last: Option<u8> = None;
    for (t, o) in &log {
        h = (h ^ *t as u64).wrapping_mul(0x100000001b3);
        h = (h ^ *o as u64).wrapping_mul(0x100000001b3);
        if last != Some(*t) {
            if finished.contains(t) {
                interleaved = true;
            }
            if let Some(l) = last {
                finished.push(l);
            }
            last = Some(*t);
        }
    }
    FINGERPRINTS.lock().unwrap().push((h, interleaved));
}

fn config(dir: &str) -> Config {
    let mut c = Config::new();
    c.failure_persistence = FailurePersistence::File(Some(dir.into()));
    c.max_steps = MaxSteps::FailAfter(200_000);
    c
}

fn newest_schedule(dir: &str) -> Option<std::path::PathBuf> {
    let mut best: Option<(std::time::SystemTime, std::path::PathBuf)> = None;
    for e in std::fs::read_dir(dir).ok()? {
        let e = e.ok()?;
        let p = e.path();
        if p.file_name()?.to_str()?.starts_with("schedule") {
            let t = e.metadata().ok()?.modified().ok()?;
            if best.as_ref().map(|b| t > b.0).unwrap_or(true) {
                best = Some((t, p));
            }
        }
    }
    best.map(|b| b.1)
}

fn panic_message(e: Box<dyn std::any::Any + Send>) -> String {
    if let Some(s) = e.downcast_ref::<&str>() {
        s.to_string()
    } else if let Some(s) = e.downcast_ref::<String>() {
        s.clone()
    } else {
        "panic".into()
    }
}

fn main() {
    let args: Vec<String> = std::env::args().collect();
    let verif_owned = std::env::var("VERIF_ROOT").unwrap_or_else(|_| "/verif".to_string());
    let verif = verif_owned.as_str();
    match args.get(1).map(|s| s.as_str()) {
        Some("worker") => {
            // worker <kind> <seed> <iterations> <schedule-dir>: one scheduler batch in this process
            let kind = args[2].clone();
            let seed: u64 = args[3].parse().unwrap();
            let n: usize = args[4].parse().unwrap();
            let dir = args[5].clone();
            std::fs::create_dir_all(&dir).unwrap();
            let d2 = dir.clone();
            let k = kind.clone();
            let r = catch_unwind(AssertUnwindSafe(move || match k.as_str() {
                "random" => Runner::new(RandomScheduler::new_from_seed(seed, n), config(&d2)).run(scenario),
                "pct2" => Runner::new(PctScheduler::new_from_seed(seed, 2, n), config(&d2)).run(scenario),
                _ => Runner::new(PctScheduler::new_from_seed(seed, 3, n), config(&d2)).run(scenario),
            }));
            let (msg, sched) = match r {
                Ok(_) => (None, None),
                Err(e) => (
                    Some(panic_message(e)),
                    newest_schedule(&dir).and_then(|p| std::fs::read_to_string(p).ok()),
                ),
            };
            println!(
                "RESULT {}",
                serde_json::json!({"kind": kind, "seed": seed, "iterations": ITER.load(Ordering::Relaxed), "threads": THREADS.load(Ordering::Relaxed),
                    "fingerprints": FINGERPRINTS.lock().unwrap().iter().filter(|f| f.1).map(|f| f.0).collect::<Vec<u64>>(),
                    "fingerprints_all": FINGERPRINTS.lock().unwrap().iter().map(|f| f.0).collect::<Vec<u64>>(),
                    "ops": OPS.load(Ordering::Relaxed), "locked": LOCKED_CALLS.load(Ordering::Relaxed), "message": msg, "schedule": sched})
            );
        }
        Some("run") => {
            let tier = args.get(2).map(|s| s.as_str()).unwrap_or("quick");
            let t0 = Instant::now();
            let seed_base: u64 = std::env::var("VERIF_SEED").ok().and_then(|s| s.parse().ok()).unwrap_or(1);
            let iters: usize = std::env::var("VERIF_RUNS").ok().and_then(|s| s.parse().ok()).unwrap_or(if tier == "thorough" { 400_000 } else { 16_000 });
            let procs: usize = std::env::var("VERIF_WORKERS").ok().and_then(|s| s.parse().ok()).unwrap_or(16);
            let sched_dir = format!("{verif}/build/shuttle-schedules");
            let _ = std::fs::remove_dir_all(&sched_dir);
            std::fs::create_dir_all(&sched_dir).unwrap();
            std::fs::create_dir_all(format!("{verif}/replays")).unwrap();
            std::fs::create_dir_all(format!("{verif}/evidence")).unwrap();
            // worker processes: half seeded-random, a quarter PCT depth 2, a quarter PCT depth 3
            let per = iters.div_ceil(procs);
            let mut children = vec![];
            for p in 0..procs {
                let kind = match p % 4 {
                    0 | 1 => "random",
                    2 => "pct2",
                    _ => "pct3",
                };
                let seed = seed_base.wrapping_mul(1_000_003).wrapping_add(p as u64);
                let c = std::process::Command::new(std::env::current_exe().unwrap())
                    .args(["worker", kind, &seed.to_string(), &per.to_string(), &format!("{sched_dir}/{p}")])
                    .stdout(std::process::Stdio::piped())
                    .stderr(std::process::Stdio::null())
                    .spawn()
                    .expect("spawn");
                children.push(c);
            }
            let mut failure: Option<(String, String, String)> = None;
            let mut done: Vec<(String, u64)> = vec![];
            let (mut iterations, mut threads, mut ops, mut locked) = (0u64, 0u64, 0u64, 0u64);
            let mut harness_error = None;
            let mut fps: HashSet<u64> = HashSet::new();
            let mut fps_all: HashSet<u64> = HashSet::new();
            for c in children {
                let out = c.wait_with_output().expect("wait");
                let text = String::from_utf8_lossy(&out.stdout).to_string();
                let line = text.lines().find_map(|l| l.strip_prefix("RESULT "));
                match line.and_then(|l| serde_json::from_str::<serde_json::Value>(l).ok()) {
                    Some(v) => {
                        iterations += v["iterations"].as_u64().unwrap_or(0);
                        threads += v["threads"].as_u64().unwrap_or(0);
                        ops += v["ops"].as_u64().unwrap_or(0);
                        locked += v["locked"].as_u64().unwrap_or(0);
                        for f in v["fingerprints"].as_array().cloned().unwrap_or_default() {
                            fps.insert(f.as_u64().unwrap_or(0));
                        }
                        for f in v["fingerprints_all"].as_array().cloned().unwrap_or_default() {
                            fps_all.insert(f.as_u64().unwrap_or(0));
                        }
                        done.push((v["kind"].as_str().unwrap_or("").to_string(), v["iterations"].as_u64().unwrap_or(0)));
                        if let Some(m) = v["message"].as_str() {
                            if failure.is_none() {
                                failure = Some((v["kind"].as_str().unwrap_or("").to_string(), m.to_string(), v["schedule"].as_str().unwrap_or("").to_string()));
                            }
                        }
                    }
                    None => harness_error = Some(format!("a shuttle worker died without a result ({:?})", out.status)),
                }
            }
            if let Some(e) = harness_error {
                eprintln!("HARNESS ERROR: {e}");
                std::process::exit(2);
            }
            let wall = t0.elapsed().as_secs_f64();
            let mut code = 0;
            let mut viol = serde_json::Value::Null;
            if let Some((kind, msg, sched)) = &failure {
                let first_line = msg.lines().next().unwrap_or("").to_string();
                let class = if first_line.contains("deadlock") { "deadlock" } else if first_line.contains("exceeded max_steps") || first_line.contains("max steps") { "step-bound" } else if first_line.contains("C16-across-threads") { "freshness-across-threads" } else { "call-result" };
                let what = first_line.rsplit("C19: ").next().unwrap_or(&first_line).chars().take(80).collect::<String>();
                let sig = format!("C19/{class}/{}", what.replace(' ', "-"));
                let mut h = 0xcbf29ce484222325u64;
                for b in sig.as_bytes() {
                    h ^= *b as u64;
                    h = h.wrapping_mul(0x100000001b3);
                }
                let path = format!("{verif}/replays/C19-{h:016x}.json");
                let rep = serde_json::json!({"property": "C19", "engine": "shuttle", "scheduler": kind, "signature": sig, "message": msg, "shuttle_schedule": sched, "seed": seed_base});
                std::fs::write(&path, serde_json::to_string_pretty(&rep).unwrap()).unwrap();
                // replay must reproduce in a fresh process
                let st = std::process::Command::new(std::env::current_exe().unwrap()).args(["replay", &path]).output();
                let reproduced = st.map(|o| o.status.code() == Some(1)).unwrap_or(false);
                if !reproduced {
                    eprintln!("HARNESS ERROR: shuttle failure did not replay: {msg}");
                    std::process::exit(2);
                }
                println!("VIOLATION property=C19 replay={path}");
                println!("  signature: {sig}");
                viol = serde_json::json!({"signature": sig, "replay": path, "scheduler": kind});
                code = 1;
            }
            let ev = serde_json::json!({
                "property_id": "C19", "tier": tier, "seed": seed_base, "level": "exploration", "wall_s": wall,
                "violations": if code == 0 { 0 } else { 1 },
                "coverage": {
                    "evaluations": iterations,
                    "distinct_nontrivial": fps.len(),
                    "distinct_interleavings_all": fps_all.len(),
                    "rule": "one evaluation = one complete execution of the scenario under one seeded thread schedule (shuttle RandomScheduler / PctScheduler depth 2 and 3, one scheduler seed per worker process); each execution draws from shuttle::rand a fresh fixture seed, 2-4 threads and 2-5 operations per thread. The fingerprint of an execution is the hash of (number of threads, observed order in which the operations of all threads started, with their kinds). An execution is non-trivial when it was really interleaved: some thread started an operation after another thread had run in between its operations. distinct_nontrivial counts distinct fingerprints among interleaved executions with a hash set over all worker processes.",
                    "samples": [{"scheduler": "random", "threads": "2-4", "ops_per_thread": "2-5", "operations": ["encaps+decaps", "decaps stored", "pke encrypt+decrypt", "pke decrypt stored", "header generate+decrypt", "header decrypt stored", "keygen on private MSK", "rekey + refresh on private MSK/USK", "recaps", "failing encaps / keygen (invalid policy)"]}],
                    "schedulers": done.iter().map(|(k, n)| serde_json::json!({"kind": k, "iterations": n})).collect::<Vec<_>>(),
                    "threads_spawned": threads,
                    "operations_executed": ops,
                    "calls_taking_the_rng_lock": locked,
                    "runs_per_hour": (iterations as f64 / wall.max(0.001) * 3600.0) as u64,
                    "faults_fired": {"thread-schedule (seeded random)": done.iter().filter(|d| d.0 == "random").map(|d| d.1).sum::<u64>(), "thread-schedule (PCT)": done.iter().filter(|d| d.0 != "random").map(|d| d.1).sum::<u64>()},
                    "components": {"real": ["cosmian_cover_crypt built from /repo with --cfg cosmian_cover_crypt_verif (RNG mutex = shuttle::sync::Mutex)"], "simulated": ["thread scheduler (shuttle)", "OS entropy (interposed getrandom)", "workload randomness (shuttle::rand)"]},
                    "violation": viol,
                    "exhaustive": false
                },
                "assumptions": ["the only shared state of a Covercrypt instance is its RNG mutex (api.rs, encrypted_header.rs)", "shuttle's schedulers sample interleavings; a clean batch is evidence, not proof"]
            });
            std::fs::write(format!("{verif}/evidence/C19.json"), serde_json::to_string_pretty(&ev).unwrap()).unwrap();
            println!("C19 {tier}: {iterations} schedules, {threads} threads, {ops} operations, {:.1}s", wall);
            std::process::exit(code);
        }
        Some("replay") => {
            let text = std::fs::read_to_string(&args[2]).expect("read replay");
            let v: serde_json::Value = serde_json::from_str(&text).expect("json");
            let sched = v["shuttle_schedule"].as_str().unwrap_or("").to_string();
            let r = catch_unwind(AssertUnwindSafe(move || shuttle::replay(scenario, &sched)));
            match r {
                Ok(_) => {
                    println!("replay passed");
                    std::process::exit(0);
                }
                Err(e) => {
                    println!("VIOLATION property=C19 replay={}", args[2]);
                    eprintln!("{}", panic_message(e));
                    std::process::exit(1);
                }
            }
        }
        _ => {
            eprintln!("usage: ccshuttle run <quick|thorough> | replay <file>");
            std::process::exit(2);
        }
    }
}
