//! World operations, part 2: user keys, network, encryption, reads, refresh, reloads, backups,
//! re-encapsulation.

use std::collections::{BTreeMap, BTreeSet};

use cosmian_cover_crypt::{
    traits::{KemAc, PkeAc},
    EncryptedHeader, MasterPublicKey, MasterSecretKey, UserSecretKey, XEnc,
};
use cosmian_crypto_core::{
    bytes_ser_de::{Deserializer, Serializable},
    Aes256Gcm, Dem, FixedSizeCBytes, Instantiable, Nonce, SymmetricKey,
};

use crate::bigmod;
use crate::events::*;
use crate::faults;
use crate::model::*;
use crate::obs::Class;
use crate::rng::Rng;
use crate::seams::guard;
use crate::wire;
use crate::world::*;

fn norm_aad(a: &Option<Vec<u8>>) -> &[u8] {
    a.as_deref().unwrap_or(&[])
}

pub fn payload(len: usize, salt: u64) -> Vec<u8> {
    Rng::new(salt ^ 0xDA7A).bytes(len)
}

impl World {
    // -----------------------------------------------------------------------------------------
    // User keys
    // -----------------------------------------------------------------------------------------

    /// Structural and tracing checks of a user key against its model twin, from bytes.
    pub fn check_usk(&mut self, usk: &UserSecretKey, m: &MUsk, op: &str) {
        if !(self.wants(Class::UskShape) || self.wants(Class::Flavour) || self.wants(Class::Tracing) || self.wants(Class::Fresh)) {
            return;
        }
        let Ok(bytes) = usk.serialize() else { return };
        let Ok(w) = wire::parse_usk(&bytes) else {
            self.stats.unobservable += 1;
            return;
        };
        self.stats.check("usk");
        let mut fails: Vec<(Class, String, String)> = vec![];
        // --- rights and chains ---
        let mut expected: BTreeMap<Vec<u8>, (usize, bool)> = BTreeMap::new();
        let mut observable = true;
        for (r, c) in &m.rights {
            match self.sut_right(r) {
                Some(b) => {
                    expected.insert(b, (c.len(), m.hybrid[r]));
                }
                None => observable = false,
            }
        }
        if expected.len() != m.rights.len() {
            observable = false;
        }
        if observable {
            let got: BTreeSet<&Vec<u8>> = w.rights.iter().map(|r| &r.right).collect();
            let exp: BTreeSet<&Vec<u8>> = expected.keys().collect();
            if got.len() != w.rights.len() {
                fails.push((Class::UskShape, format!("{op}/duplicate-right"), String::new()));
            } else if got != exp {
                let extra = got.difference(&exp).count();
                let missing = exp.difference(&got).count();
                fails.push((
                    Class::UskShape,
                    format!("{op}/rights-set/{}", if extra > 0 { "extra-rights" } else { "missing-rights" }),
                    format!("extra {extra} missing {missing}"),
                ));
            } else {
                for r in &w.rights {
                    let (len, hybrid) = expected[&r.right];
                    if r.secrets.len() != len {
                        fails.push((
                            Class::UskShape,
                            format!("{op}/chain-length/{}", if r.secrets.len() > len { "longer" } else { "shorter" }),
                            format!("right {:?}: usk chain {} model {}", r.right, r.secrets.len(), len),
                        ));
                    }
                    if r.secrets.iter().any(|s| s.hybrid != hybrid) {
                        fails.push((
                            Class::Flavour,
                            format!("{op}/usk-secret/{}", if hybrid { "expected-hybridized" } else { "expected-classic" }),
                            format!("right {:?}", r.right),
                        ));
                    }
                }
            }
        } else {
            self.stats.unobservable += 1;
        }
        if w.signature.is_none() {
            fails.push((Class::Tracing, format!("{op}/unsigned-key"), String::new()));
        }
        // --- identifier ---
        if self.wants(Class::Tracing) || self.wants(Class::Fresh) {
            let id_bytes: Vec<u8> = w.id.concat();
            // distinct from the identifier of every other key handle
            let mut clash = false;
            for (k, v) in self.fresh.entry("user-id").or_default().iter().map(|v| (v[..8].to_vec(), v[8..].to_vec())) {
                if v == id_bytes && k != m.kid.to_le_bytes().to_vec() {
                    clash = true;
                }
            }
            if clash {
                fails.push((Class::Fresh, format!("{op}/user-id-repeated"), String::new()));
                fails.push((Class::Tracing, format!("{op}/user-id-not-distinct"), String::new()));
            }
            let mut rec = m.kid.to_le_bytes().to_vec();
            rec.extend_from_slice(&id_bytes);
            self.fresh.entry("user-id").or_default().insert(rec);
        }
        if self.wants(Class::Tracing) {
            self.tracing_checks(&w, op, &mut fails);
        }
        for (c, w, d) in fails {
            self.fail(c, w, d);
        }
    }

    /// Tracing checks of a parsed user key against the MSK bytes: identifier registered, tracing
    /// relation, tracing points equal to the master's and to the public key's.
    fn tracing_checks(&mut self, w: &wire::WUsk, op: &str, fails: &mut Vec<(Class, String, String)>) {
        self.stats.check("tracing");
        if let Ok(mb) = self.auth.msk.serialize() {
            if let Ok(wm) = wire::parse_msk(&mb) {
                if !wm.users.iter().any(|u| *u == w.id) {
                    fails.push((Class::Tracing, format!("{op}/id-not-registered"), String::new()));
                }
                let tracer_sk: Vec<Vec<u8>> = wm.tracers.iter().map(|(sk, _)| sk.clone()).collect();
                let tracer_pk: Vec<Vec<u8>> = wm.tracers.iter().map(|(_, pk)| pk.clone()).collect();
                match bigmod::tracing_relation(&w.id, &tracer_sk, &wm.s) {
                    Some(true) => {}
                    Some(false) => fails.push((Class::Tracing, format!("{op}/relation-broken"), String::new())),
                    None => self.stats.unobservable += 1,
                }
                if w.ps != tracer_pk {
                    fails.push((Class::Tracing, format!("{op}/usk-tracing-points-differ-from-msk"), String::new()));
                }
                if let Ok(pb) = self.auth.mpk.serialize() {
                    if let Ok(wp) = wire::parse_mpk(&pb) {
                        if wp.tpk != tracer_pk {
                            fails.push((Class::Tracing, format!("{op}/mpk-tracing-points-differ-from-msk"), String::new()));
                        }
                    }
                }
            } else {
                self.stats.unobservable += 1;
            }
        }
    }

    /// After a reload of the MSK every identifier the model knows must still be registered.
    pub fn check_registered_ids(&mut self, op: &str) {
        if !self.wants(Class::Tracing) {
            return;
        }
        let Ok(mb) = self.auth.msk.serialize() else { return };
        let Ok(wm) = wire::parse_msk(&mb) else {
            self.stats.unobservable += 1;
            return;
        };
        self.stats.check("registered-ids");
        let registered: BTreeSet<Vec<u8>> = wm.users.iter().map(|u| u.concat()).collect();
        let mut lost = 0;
        if let Some(ids) = self.fresh.get("user-id") {
            for rec in ids {
                let kid = u64::from_le_bytes(rec[..8].try_into().unwrap());
                // (records are made in tracing epoch 0: the profiles that own this check never raise the level)
                if self.auth.m.known_users.contains(&kid) && !registered.contains(&rec[8..].to_vec()) {
                    lost += 1;
                }
            }
        }
        if lost > 0 {
            self.fail(Class::Tracing, format!("{op}/registered-id-lost"), format!("{lost} identifiers of issued keys are missing from the MSK"));
        }
    }

    pub fn ev_keygen(&mut self, user: usize, pol: &PolArg) {
        if user >= self.users.len() {
            return;
        }
        let Some(ap) = self.parse_policy(pol) else { return };
        let before = self.snap_msk();
        let a = &mut self.auth;
        let r = guard(|| a.cc.generate_user_secret_key(&mut a.msk, &ap));
        let kid = self.next_kid;
        let mut m2 = self.auth.m.clone();
        let mr = m2.keygen(kid, &pol.ast);
        let cause = if self.auth.m.structure.usk_rights(&pol.ast).is_err() { "invalid-policy" } else { "right-not-in-msk" };
        match r {
            Err(p) => {
                self.fail(Class::Panic, "keygen/panic", p);
                self.outcomes.push("keygen:panic".into());
            }
            Ok(r) => {
                self.stats.check("ok-err");
                self.outcomes.push(format!("keygen:{}", if r.is_ok() { "ok" } else { "err" }));
                if r.is_ok() != mr.is_ok() {
                    self.fail(
                        Class::OkErr,
                        format!("keygen/{}", if mr.is_ok() { "expected-ok-got-err".to_string() } else { format!("expected-err-got-ok/{cause}") }),
                        format!("policy {:?} sut: {:?}", pol.text, r.as_ref().err().map(|e| e.to_string())),
                    );
                }
                match (r, mr) {
                    (Err(_), mr) => {
                        self.check_msk_unchanged(&before, "keygen", if mr.is_ok() { "unexpected" } else { cause }, Class::Unchanged);
                    }
                    (Ok(usk), Ok(mut mu)) => {
                        self.next_kid += 1;
                        self.auth.m = m2;
                        mu.version = self.now as u32; // born
                        self.check_usk(&usk, &mu, "keygen");
                        // The key travels to the user as bytes.
                        match usk.serialize() {
                            Ok(bytes) => {
                                self.issued.insert(bytes.to_vec(), mu.clone());
                                match UserSecretKey::deserialize(&bytes) {
                                    Ok(k2) => {
                                        if self.wants(Class::Reload) && k2 != usk {
                                            self.fail(Class::Reload, "usk/round-trip-not-equal", "after keygen");
                                        }
                                        self.users[user].usk = Some((k2, mu));
                                        self.users[user].pol = Some((pol.ast.clone(), self.epoch));
                                    }
                                    Err(e) => {
                                        self.fail(Class::Reload, "usk/deserialize-failed", e.to_string());
                                    }
                                }
                            }
                            Err(e) => self.fail(Class::Reload, "usk/serialize-failed", e.to_string()),
                        }
                    }
                    (Ok(_), Err(_)) => {}
                }
            }
        }
    }

    // -----------------------------------------------------------------------------------------
    // Network
    // -----------------------------------------------------------------------------------------

    pub fn ev_publish(&mut self, to: &[(usize, u32, bool)]) {
        let Ok(bytes) = self.auth.mpk.serialize() else { return };
        let bytes = bytes.to_vec();
        for e in 0..self.encryptors.len() {
            if !to.iter().any(|(x, _, _)| *x == e) {
                self.stats.fault("lost-mpk-update");
            }
        }
        for (e, delay, dup) in to {
            if *delay > 0 {
                self.stats.fault("delayed-mpk-update");
            }
            if *e >= self.encryptors.len() {
                continue;
            }
            let m = self.auth.mmpk.clone();
            self.send_msg(*delay, Msg::Mpk { to: *e, bytes: bytes.clone(), m: m.clone() });
            if *dup {
                self.stats.fault("duplicate-mpk");
                self.send_msg(delay * 2 + 1, Msg::Mpk { to: *e, bytes: bytes.clone(), m });
            }
        }
        self.outcomes.push(format!("publish:{}", to.len()));
    }

    fn send_msg(&mut self, delay: u32, msg: Msg) {
        self.seq += 1;
        self.net.insert((self.now + delay as u64, self.seq), msg);
    }

    pub fn ev_deliver(&mut self, reply_delay: u32, reply_dup: bool, reply_drop: bool) {
        let Some(key) = self.net.keys().next().copied() else {
            self.outcomes.push("deliver:none".into());
            return;
        };
        let msg = self.net.remove(&key).unwrap();
        match msg {
            Msg::Mpk { to, bytes, m } => {
                match MasterPublicKey::deserialize(&bytes) {
                    Ok(mpk) => {
                        if let Some((_, old)) = &self.encryptors[to].mpk {
                            if old.version > m.version {
                                self.stats.fault("reordered-mpk-older-overwrites-newer");
                            }
                        }
                        self.encryptors[to].mpk = Some((mpk, m));
                        self.outcomes.push("deliver:mpk".into());
                    }
                    Err(e) => {
                        self.fail(Class::Reload, "mpk/deserialize-failed", e.to_string());
                    }
                }
            }
            Msg::RefreshReply { to, bytes, m } => match UserSecretKey::deserialize(&bytes) {
                Ok(usk) => {
                    if let Some((_, old)) = &self.users[to].usk {
                        if old.kid == m.kid && old.version > m.version {
                            self.stats.fault("reordered-reply-older-overwrites-newer");
                        }
                        if old.kid != m.kid {
                            // reply for a key the user has since replaced: ignore it
                            self.outcomes.push("deliver:stale-reply".into());
                            return;
                        }
                    }
                    self.users[to].usk = Some((usk, m));
                    self.outcomes.push("deliver:reply".into());
                }
                Err(e) => self.fail(Class::Reload, "usk/deserialize-failed", e.to_string()),
            },
            Msg::RefreshReq { from, bytes, m, keep, tamper } => {
                self.serve_refresh(from, bytes, m, keep, tamper, reply_delay, reply_dup, reply_drop);
            }
        }
    }

    pub fn ev_request_refresh(&mut self, user: usize, keep: bool, delay: u32, dup: bool, tamper: &Option<UskOp>) {
        if user >= self.users.len() {
            return;
        }
        let Some((usk, m)) = &self.users[user].usk else {
            self.outcomes.push("request:no-key".into());
            return;
        };
        let Ok(bytes) = usk.serialize() else { return };
        let mut bytes = bytes.to_vec();
        let m = m.clone();
        let mut tag = None;
        if let Some(op) = tamper {
            match faults::apply_usk_op(self, user, &bytes, op) {
                Some(b2) if b2 != bytes => {
                    // Does the re-framed key present the same byte string to the issuer's MAC?
                    let same_mac = match (faults::mac_view(&bytes), faults::mac_view(&b2)) {
                        (Some(a), Some(b)) => a == b,
                        _ => false,
                    };
                    bytes = b2;
                    tag = Some(format!("{}/{}", faults::usk_op_name(op), if same_mac { "same-mac-input" } else { "different-mac-input" }));
                    self.stats.fault(faults::usk_op_name(op));
                }
                _ => {
                    self.stats.noop_mutations += 1;
                }
            }
        }
        self.send_msg(delay, Msg::RefreshReq { from: user, bytes: bytes.clone(), m: m.clone(), keep, tamper: tag.clone() });
        if dup {
            self.stats.fault("duplicate-refresh-request");
            self.send_msg(delay * 2 + 1, Msg::RefreshReq { from: user, bytes, m, keep, tamper: tag });
        }
        self.outcomes.push("request".into());
    }

    #[allow(clippy::too_many_arguments)]
    pub fn serve_refresh(
        &mut self,
        from: usize,
        bytes: Vec<u8>,
        m: MUsk,
        keep: bool,
        tamper: Option<String>,
        reply_delay: u32,
        reply_dup: bool,
        reply_drop: bool,
    ) {
        let before = self.snap_msk();
        let parsed = guard(|| UserSecretKey::deserialize(&bytes));
        let mut usk = match parsed {
            Err(p) => {
                self.fail(Class::Panic, "usk-deserialize/panic", p);
                return;
            }
            Ok(Err(e)) => {
                if tamper.is_none() {
                    self.fail(Class::OkErrRefresh, "refresh/expected-ok-got-err/deserialize", e.to_string());
                } else {
                    self.stats.probe("forged-rejected-at-parse");
                }
                self.outcomes.push("refresh:unparseable".into());
                return;
            }
            Ok(Ok(k)) => k,
        };
        // Is this (possibly tampered) key one the authority issued?
        let mut forged = tamper.clone();
        let mut m = m;
        if forged.is_some() {
            if let Ok(b2) = usk.serialize() {
                if let Some(orig) = self.issued.get(&b2.to_vec()) {
                    forged = None;
                    m = orig.clone();
                    self.stats.noop_mutations += 1;
                } else if let Some(v) = faults::without_ps(&b2) {
                    // Identifier, rights, secrets and signature exactly those of an issued key,
                    // only the embedded tracing points differ: outside C08's statement.
                    if self.issued.keys().any(|k| faults::without_ps(k).as_ref() == Some(&v)) {
                        self.stats.probe("forged-only-tracing-points-differ");
                        self.outcomes.push("refresh:skipped-ps-only".into());
                        return;
                    }
                }
            }
        }
        let usk_before = usk.clone();
        let a = &mut self.auth;
        let r = guard(|| a.cc.refresh_usk(&mut a.msk, &mut usk, keep));
        let r = match r {
            Err(p) => {
                self.fail(Class::Panic, "refresh/panic", p.clone());
                if forged.is_some() {
                    self.fail(Class::Forged, format!("refresh-panicked/operator={}", forged.unwrap()), p);
                }
                self.outcomes.push("refresh:panic".into());
                return;
            }
            Ok(r) => r,
        };
        self.outcomes.push(format!("refresh:{}", if r.is_ok() { "ok" } else { "err" }));
        if let Some(opname) = forged {
            // C08: anything that is not an issued key must be refused, leaving both keys as they were.
            self.stats.check("forged-refresh");
            match r {
                Ok(()) => {
                    self.fail(
                        Class::Forged,
                        format!("refresh-accepted/operator={opname}"),
                        format!("keep={keep} bytes {}", bytes.len()),
                    );
                    if m.tl != self.auth.m.tl {
                        // (only reachable through a listed finding) the accepted key got a new
                        // identifier and the one of the genuine key is forgotten
                        self.auth.m.known_users.remove(&m.token());
                    }
                    if self.wants(Class::Tracing) {
                        // an altered key was accepted: the key it produced must still satisfy C17
                        if let Ok(b) = usk.serialize() {
                            if let Ok(wu) = wire::parse_usk(&b) {
                                let mut fails = vec![];
                                self.tracing_checks(&wu, "refresh-of-altered-key", &mut fails);
                                for (c, w, d) in fails {
                                    self.fail(c, w, d);
                                }
                            }
                        }
                    }
                    if self.wants(Class::OkErrRefresh) && !self.wants(Class::Forged) {
                        self.fail(
                        Class::OkErrRefresh,
                        format!("refresh/expected-err-got-ok/forged-key/operator={opname}"),
                        format!("keep={keep} bytes {}", bytes.len()),
                    );
                    }
                }
                Err(_) => {
                    self.stats.probe("forged-rejected-at-verify");
                    if usk != usk_before {
                        self.fail(Class::Forged, format!("refused-but-usk-modified/operator={opname}"), String::new());
                    }
                    self.check_msk_unchanged(&before, "refresh-forged", &opname, Class::Forged);
                }
            }
            return;
        }
        let lost = self.is_lost_window_pub(m.version as u64);
        let mr = self.auth.m.refresh(&m, keep);
        if lost && mr.is_ok() {
            // Key obtained in a rolled-back window whose id the MSK knows: result unspecified.
            self.stats.probe("refresh-of-lost-window-key");
            if r.is_err() {
                if usk != usk_before {
                    self.fail(Class::Unchanged, "refresh/lost-window/usk-changed", String::new());
                }
                self.check_msk_unchanged(&before, "refresh", "lost-window", Class::Unchanged);
            } else if !reply_drop {
                let mut mu = mr.unwrap();
                mu.unspecified = true;
                mu.version = self.now as u32;
                if let Ok(b) = usk.serialize() {
                    self.issued.insert(b.to_vec(), mu.clone());
                    self.send_msg(reply_delay, Msg::RefreshReply { to: from, bytes: b.to_vec(), m: mu });
                }
            }
            return;
        }
        self.stats.check("ok-err");
        if r.is_ok() != mr.is_ok() {
            let what = if mr.is_ok() {
                format!("refresh/expected-ok-got-err/keep={keep}")
            } else {
                "refresh/expected-err-got-ok/unknown-id".to_string()
            };
            self.fail(Class::OkErrRefresh, what, format!("sut: {:?}", r.as_ref().err().map(|e| e.to_string())));
            if mr.is_err() {
                self.fail(Class::Tracing, "refresh/unknown-id-accepted", String::new());
                // C08: this state of the master key never issued that key
                self.fail(Class::Forged, "refresh-accepted/key-not-issued-by-this-msk-state", String::new());
            } else {
                self.fail(Class::Tracing, "refresh/issued-key-refused", format!("sut: {:?}", r.as_ref().err().map(|e| e.to_string())));
            }
        }
        if mr.is_err() {
            self.stats.probe("refresh-unknown-id");
        }
        match (r, mr) {
            (Err(_), mr) => {
                let cause = if mr.is_ok() { "unexpected" } else { "unknown-id" };
                self.stats.check("unchanged-usk");
                if self.wants(Class::Unchanged) && usk != usk_before {
                    let after = usk.serialize().map(|b| b.len()).unwrap_or(0);
                    self.fail(
                        Class::Unchanged,
                        format!("refresh/{cause}/usk-changed"),
                        format!("usk bytes {} -> {}", bytes.len(), after),
                    );
                }
                self.check_msk_unchanged(&before, "refresh", cause, Class::Unchanged);
            }
            (Ok(()), Ok(mut mu)) => {
                mu.version = self.now as u32;
                if m.tl != self.auth.m.tl {
                    // identifier of another tracing level: the key got a new identifier and
                    // the old one is no longer known
                    self.stats.probe("refresh-across-tracing-levels");
                    self.auth.m.known_users.remove(&m.token());
                    mu.tl = self.auth.m.tl;
                    self.auth.m.known_users.insert(mu.token());
                }
                if keep {
                    self.stats.probe("refresh-keep");
                    let lens: BTreeSet<usize> = mu.rights.values().map(|c| c.len()).collect();
                    if lens.len() > 1 {
                        self.stats.probe("usk-unequal-chains");
                    }
                } else {
                    self.stats.probe("refresh-nokeep");
                }
                if mu.rights.len() < m.rights.len() {
                    self.stats.probe("refresh-dropped-rights");
                }
                self.check_usk(&usk, &mu, "refresh");
                match usk.serialize() {
                    Ok(b) => {
                        self.issued.insert(b.to_vec(), mu.clone());
                        if reply_drop {
                            self.stats.fault("lost-refresh-reply");
                        } else {
                            self.send_msg(reply_delay, Msg::RefreshReply { to: from, bytes: b.to_vec(), m: mu.clone() });
                            if reply_dup {
                                self.stats.fault("duplicate-refresh-reply");
                                self.send_msg(reply_delay * 2 + 1, Msg::RefreshReply { to: from, bytes: b.to_vec(), m: mu });
                            }
                        }
                    }
                    Err(e) => self.fail(Class::Reload, "usk/serialize-failed", e.to_string()),
                }
            }
            (Ok(()), Err(())) => {}
        }
    }

    /// The attribute-id counter of the access structure jumps forward (ids are never reused, the
    /// counter only grows: this is the state of an authority that created that many attributes).
    /// Done on the serialized structure, whose last field is the counter.
    pub fn ev_id_counter_jump(&mut self, to: u64, back: Option<u8>) {
        let Ok(b) = self.auth.msk.access_structure.serialize() else { return };
        let b = b.to_vec();
        let mut rd = wire::Rd::new(&b);
        let Ok(ws) = wire::read_structure(&mut rd) else {
            self.stats.unobservable += 1;
            return;
        };
        let Some(cur) = ws.next_id else { return };
        let to = match back {
            Some(b) => to.saturating_add(cur.saturating_sub(b as u64)),
            None => to,
        };
        if to <= cur {
            self.outcomes.push("id-counter-jump:not-forward".into());
            return;
        }
        let tail = wire::leb_encode(cur);
        if !b.ends_with(&tail) {
            self.stats.unobservable += 1;
            return;
        }
        let mut nb = b[..b.len() - tail.len()].to_vec();
        nb.extend(wire::leb_encode(to));
        match guard(|| cosmian_cover_crypt::AccessStructure::deserialize(&nb)) {
            Ok(Ok(s)) => {
                self.auth.msk.access_structure = s;
                self.stats.fault("attribute-id-counter-jump");
                self.outcomes.push("id-counter-jump:ok".into());
            }
            _ => {
                // a reader that refuses such a counter is within its rights (no history a run can
                // afford produces it): the fault is simply not injected
                self.stats.probe("id-counter-jump-refused-by-reader");
                self.outcomes.push("id-counter-jump:unreadable".into());
            }
        }
    }

    /// The master key is replaced by one of a higher tracing level: its serialized form gets one
    /// more tracer (a copy of the last one, a well-formed (scalar, point) pair) and is read back,
    /// as when the key comes from a deployment configured with another level. Keys issued before
    /// get a new identifier at their next refresh.
    pub fn ev_raise_tracing(&mut self) {
        let Ok(b) = self.auth.msk.serialize() else { return };
        let b = b.to_vec();
        let Ok(w) = wire::parse_msk(&b) else {
            self.stats.unobservable += 1;
            return;
        };
        let n = w.tracers.len();
        let Some((_, (p0, p1))) = w.spans.iter().find(|(k, _)| *k == "tracer-count") else { return };
        if n == 0 || n >= 6 || p1 - p0 != 1 {
            return;
        }
        let tracer_len = w.tracers[0].0.len() + w.tracers[0].1.len();
        let end = p1 + n * tracer_len;
        let mut nb = b[..*p0].to_vec();
        nb.push((n + 1) as u8);
        nb.extend_from_slice(&b[*p1..end]);
        nb.extend_from_slice(&b[end - tracer_len..end]);
        nb.extend_from_slice(&b[end..]);
        match guard(|| MasterSecretKey::deserialize(&nb)) {
            Ok(Ok(msk)) => {
                self.auth.msk = msk;
                self.auth.m.tl += 1;
                self.stats.fault("tracing-level-raised");
                self.outcomes.push("raise-tracing:ok".into());
            }
            _ => {
                self.stats.unobservable += 1;
                self.outcomes.push("raise-tracing:unreadable".into());
            }
        }
    }

    pub fn is_lost_window_pub(&self, born: u64) -> bool {
        self.lost_windows.iter().any(|(tb, tr)| *tb < born && born <= *tr)
    }

    // -----------------------------------------------------------------------------------------
    // Encryption
    // -----------------------------------------------------------------------------------------

    fn register_fresh(&mut self, class: &'static str, value: &[u8], what: &str) {
        if !self.wants(Class::Fresh) {
            return;
        }
        self.stats.check("fresh");
        if !self.fresh.entry(class).or_default().insert(value.to_vec()) {
            self.fail(Class::Fresh, format!("{what}/{class}-repeated"), format!("{} bytes", value.len()));
        }
    }

    /// The nonce just produced must have been *consumed* from the instance generator: if the
    /// generator's next output (peeked on a clone, through the public `rng()` accessor) starts
    /// with the same bytes, the next draw on this instance repeats the nonce.
    fn check_generator_advanced(&mut self, encryptor: usize, nonce: &[u8], what: &str) {
        if !self.wants(Class::Fresh) {
            return;
        }
        use cosmian_crypto_core::reexport::rand_core::RngCore;
        self.stats.check("generator-advanced");
        let mut peek = self.encryptors[encryptor].cc.rng().clone();
        let mut buf = vec![0u8; nonce.len()];
        peek.fill_bytes(&mut buf);
        if buf == nonce {
            self.fail(Class::Fresh, format!("{what}/nonce-not-consumed-from-generator"), String::new());
        }
    }

    /// Registers the observable random values of an encapsulation.
    fn register_enc(&mut self, enc_bytes: &[u8], secret: &[u8], what: &str, m: &MEnc) {
        self.register_fresh("secret", secret, what);
        match wire::parse_enc(enc_bytes) {
            Ok(w) => {
                self.register_fresh("tag", &w.tag, what);
                if let Some(t) = w.traps.first() {
                    self.register_fresh("trap", t, what);
                }
                for (_, f) in &w.encs {
                    self.register_fresh("masked-seed", &enc_bytes[f.0..f.1], what);
                }
                if self.wants(Class::Flavour) {
                    self.stats.check("enc-flavour");
                    if w.hybrid != m.hybrid {
                        self.fail(
                            Class::Flavour,
                            format!("{what}/encapsulation/{}", if m.hybrid { "expected-hybridized" } else { "expected-classic" }),
                            format!("{} targets", m.targets.len()),
                        );
                    }
                    if w.encs.len() != m.targets.len() {
                        self.fail(Class::Flavour, format!("{what}/encapsulation/target-count"), format!("{} vs model {}", w.encs.len(), m.targets.len()));
                    }
                }
                if m.hybrid {
                    self.stats.probe("hybridized-encapsulation");
                    if m.targets.len() > 1 {
                        self.stats.probe("hybridized-multi-target");
                    }
                } else if m.targets.len() > 1 {
                    self.stats.probe("classic-multi-target");
                }
            }
            Err(_) => self.stats.unobservable += 1,
        }
    }

    pub fn ev_encrypt(&mut self, e: usize, pol: &PolArg, kind: &EncKind, repeat: u32) {
        if e >= self.encryptors.len() {
            return;
        }
        if self.encryptors[e].mpk.is_none() {
            self.outcomes.push("encrypt:no-mpk".into());
            return;
        }
        let Some(ap) = self.parse_policy(pol) else { return };
        // very large payloads are repeated at most twice
        let repeat = if matches!(kind, EncKind::Pke { len } if *len > 200_000) { repeat.min(2) } else { repeat };
        for rep in 0..repeat.max(1) {
            let (mpk, mm) = self.encryptors[e].mpk.as_ref().unwrap();
            let cc = &self.encryptors[e].cc;
            let mr = mm.encaps(&pol.ast);
            // Why does the model refuse?
            let cause = match &mr {
                Ok(_) => "",
                Err(()) => match mm.structure.enc_rights(&pol.ast) {
                    Err(_) => "invalid-policy",
                    Ok((_, true)) => "two-attributes-of-one-dimension",
                    Ok((rs, false)) => {
                        if rs.iter().any(|r| mm.structure.right_disabled(r)) {
                            "disabled-right"
                        } else {
                            "right-without-key"
                        }
                    }
                },
            };
            let salt = self.seed ^ ((self.now << 8) + rep as u64);
            let (ptx, meta, aad): (Vec<u8>, Option<Vec<u8>>, Option<Vec<u8>>) = match kind {
                EncKind::Kem => (vec![], None, None),
                EncKind::Pke { len } => (payload(*len, salt), None, None),
                EncKind::Header { meta, aad } => (
                    vec![],
                    meta.map(|l| payload(l, salt ^ 1)),
                    aad.map(|l| payload(l, salt ^ 2)),
                ),
            };
            // (secret, stored bytes, enc_len)
            let r: Result<Result<(Vec<u8>, Vec<u8>, usize), String>, String> = guard(|| match kind {
                EncKind::Kem => {
                    let (s, enc) = cc.encaps(mpk, &ap).map_err(|e| e.to_string())?;
                    let b = enc.serialize().map_err(|e| e.to_string())?.to_vec();
                    let l = b.len();
                    Ok((s.to_vec(), b, l))
                }
                EncKind::Pke { .. } => {
                    let (enc, ctx) = PkeAc::<{ Aes256Gcm::KEY_LENGTH }, Aes256Gcm>::encrypt(cc, mpk, &ap, &ptx)
                        .map_err(|e| e.to_string())?;
                    let mut b = enc.serialize().map_err(|e| e.to_string())?.to_vec();
                    let l = b.len();
                    b.extend_from_slice(&ctx);
                    Ok((vec![], b, l))
                }
                EncKind::Header { .. } => {
                    let (s, h) = EncryptedHeader::generate(cc, mpk, &ap, meta.as_deref(), aad.as_deref())
                        .map_err(|e| e.to_string())?;
                    let l = h.encapsulation.serialize().map_err(|e| e.to_string())?.len();
                    let b = h.serialize().map_err(|e| e.to_string())?.to_vec();
                    Ok((s.to_vec(), b, l))
                }
            });
            let r = match r {
                Err(p) => {
                    self.fail(Class::Panic, "encrypt/panic", p);
                    self.outcomes.push("encrypt:panic".into());
                    return;
                }
                Ok(r) => r,
            };
            self.stats.check("ok-err");
            if rep == 0 {
                self.outcomes.push(format!("encrypt:{}", if r.is_ok() { "ok" } else { "err" }));
            }
            if r.is_ok() != mr.is_ok() {
                if mr.is_err() && cause == "disabled-right" {
                    self.fail(
                        Class::EncapsDisabled,
                        "encaps/succeeded-for-disabled-right",
                        format!("policy {:?} mpk v{}", pol.text, self.encryptors[e].mpk.as_ref().unwrap().1.version),
                    );
                } else {
                    self.fail(
                        Class::OkErr,
                        format!("encaps/{}", if mr.is_ok() { "expected-ok-got-err".to_string() } else { format!("expected-err-got-ok/{cause}") }),
                        format!("policy {:?} sut: {:?}", pol.text, r.as_ref().err()),
                    );
                    // C11: a target set mixing hybridized and classic rights must give a classic
                    // encapsulation; refusing it means the flavour was decided wrongly.
                    if let Ok(me) = &mr {
                        let (_, mm) = self.encryptors[e].mpk.as_ref().unwrap();
                        let flavours: BTreeSet<bool> = me.targets.keys().filter_map(|r| mm.keys.get(r).map(|k| k.1)).collect();
                        if flavours.len() == 2 {
                            self.fail(
                                Class::Flavour,
                                "encaps/encapsulation/mixed-hint-targets-refused",
                                format!("policy {:?} sut: {:?}", pol.text, r.as_ref().err()),
                            );
                        }
                    }
                }
                return;
            }
            if mr.is_err() {
                match cause {
                    "disabled-right" => self.stats.probe("encaps-refused-disabled"),
                    "right-without-key" => self.stats.probe("encaps-refused-no-key"),
                    "two-attributes-of-one-dimension" => self.stats.probe("encaps-refused-two-attrs"),
                    _ => self.stats.probe("encaps-refused-invalid-policy"),
                }
                return;
            }
            let (secret, bytes, enc_len) = r.unwrap();
            let me = mr.unwrap();
            let what = match kind {
                EncKind::Kem => "encaps",
                EncKind::Pke { .. } => "pke-encrypt",
                EncKind::Header { .. } => "header-generate",
            };
            if !matches!(kind, EncKind::Pke { .. }) {
                self.register_enc(&bytes[..enc_len], &secret, what, &me);
            } else if self.wants(Class::Fresh) || self.wants(Class::Flavour) {
                // PKE: the encapsulated seed is not returned; register the rest.
                if let Ok(w) = wire::parse_enc(&bytes[..enc_len]) {
                    self.register_fresh("tag", &w.tag, what);
                    if let Some(t) = w.traps.first() {
                        self.register_fresh("trap", t, what);
                    }
                }
                if bytes.len() >= enc_len + 12 {
                    let n = bytes[enc_len..enc_len + 12].to_vec();
                    self.register_fresh("pke-nonce", &n, what);
                    self.check_generator_advanced(e, &n, what);
                }
                // C16 "even for identical keys and plaintexts": the DEM used by the PKE layer,
                // called twice with the same key and this plaintext, must not repeat itself
                if self.wants(Class::Fresh) {
                    use cosmian_cover_crypt::traits::AE;
                    self.stats.check("dem-same-key-same-plaintext");
                    let mut kb = [0u8; 32];
                    kb[..8].copy_from_slice(&salt.to_le_bytes());
                    if let Ok(key) = SymmetricKey::<32>::try_from_bytes(kb) {
                        let cc = &self.encryptors[e].cc;
                        let c1 = <Aes256Gcm as AE<32>>::encrypt(&mut *cc.rng(), &key, &ptx);
                        let c2 = <Aes256Gcm as AE<32>>::encrypt(&mut *cc.rng(), &key, &ptx);
                        if let (Ok(c1), Ok(c2)) = (c1, c2) {
                            if c1 == c2 || (c1.len() >= 12 && c1[..12] == c2[..12]) {
                                self.fail(Class::Fresh, "dem-encrypt/same-key-same-plaintext-repeats", format!("plaintext of {} bytes", ptx.len()));
                            }
                        }
                    }
                }
            }
            if let EncKind::Header { .. } = kind {
                if let Ok(h) = wire::parse_header(&bytes) {
                    let md = &bytes[h.meta_span.0..h.meta_span.1];
                    if md.len() >= 12 {
                        let n = md[..12].to_vec();
                        self.register_fresh("metadata-nonce", &n, what);
                        self.check_generator_advanced(e, &n, what);
                        // The metadata key must differ from the secret handed to the caller.
                        if self.wants(Class::Fresh) && secret.len() == 32 {
                            self.stats.check("metadata-key-differs");
                            let mut k = [0u8; 32];
                            k.copy_from_slice(&secret);
                            if let (Ok(key), Ok(nonce)) = (
                                SymmetricKey::<32>::try_from_bytes(k),
                                Nonce::<12>::try_from_slice(&md[..12]),
                            ) {
                                if Aes256Gcm::new(&key).decrypt(&nonce, &md[12..], aad.as_deref()).is_ok() {
                                    self.fail(Class::Fresh, "header-generate/metadata-key-equals-returned-secret", String::new());
                                }
                            }
                        }
                    }
                }
            }
            self.slots.push(Slot {
                kind: match kind {
                    EncKind::Kem => SlotKind::Kem,
                    EncKind::Pke { .. } => SlotKind::Pke,
                    EncKind::Header { .. } => SlotKind::Header,
                },
                orig: bytes.clone(),
                bytes,
                enc_len,
                m: me,
                secret,
                ptx,
                meta,
                aad,
                read_aad: None,
                from_recaps: false,
                born_event: self.stats.events as usize - 1,
                pol: Some((pol.ast.clone(), self.epoch)),
                mpk_version: self.encryptors[e].mpk.as_ref().map(|m| m.1.version).unwrap_or(0),
            });
        }
    }

    /// Add/delete churn directly on the structure (the model is not concerned: no attribute
    /// survives it; only the id counter of the SUT moves).
    pub fn ev_churn_ids(&mut self, dim: &str, n: usize) {
        use cosmian_cover_crypt::{EncryptionHint, QualifiedAttribute};
        if self.auth.m.structure.dim(dim).is_none() {
            return;
        }
        let s = &mut self.auth.msk.access_structure;
        let r = guard(|| {
            for _ in 0..n {
                let qa = QualifiedAttribute::new(dim, "churn attribute");
                if s.add_attribute(qa.clone(), EncryptionHint::Classic, None).is_err() {
                    return false;
                }
                if s.del_attribute(&qa).is_err() {
                    return false;
                }
            }
            true
        });
        match r {
            Err(p) => self.fail(Class::Panic, "churn/panic", p),
            Ok(false) => self.fail(Class::OkErr, "add-attribute/expected-ok-got-err/churn", String::new()),
            Ok(true) => {}
        }
        self.stats.probe("attribute-id-churn");
        self.outcomes.push("churn".into());
    }

    /// The ML-KEM key of the secret that opens a hybridized encapsulation is replaced by the
    /// ML-KEM key of another secret of the same user key: decapsulation must fail.
    pub fn ev_pq_binding(&mut self, user: usize, slot: usize) {
        if user >= self.users.len() || slot >= self.slots.len() {
            return;
        }
        let Some((usk, mu)) = &self.users[user].usk else { return };
        let s = &self.slots[slot];
        if s.kind != SlotKind::Kem || !s.m.hybrid || s.bytes != s.orig || mu.unspecified || !mu.opens(&s.m) {
            return;
        }
        let Ok(bytes) = usk.serialize() else { return };
        let bytes = bytes.to_vec();
        let Ok(w) = wire::parse_usk(&bytes) else { return };
        // every secret whose (right, revision) is targeted by the encapsulation gets the ML-KEM
        // key of some *other* hybridized secret of the key
        let hybrid_secrets: Vec<(usize, usize)> = w
            .rights
            .iter()
            .enumerate()
            .flat_map(|(i, r)| r.secrets.iter().enumerate().filter(|(_, s)| s.hybrid).map(move |(k, _)| (i, k)))
            .collect();
        if hybrid_secrets.len() < 2 {
            return;
        }
        let mut target_rights: Vec<Vec<u8>> = vec![];
        for r in s.m.targets.keys() {
            if let Some(b) = self.sut_right(r) {
                target_rights.push(b);
            }
        }
        let mut out = bytes.clone();
        let mut changed = 0;
        for (i, r) in w.rights.iter().enumerate() {
            if !target_rights.contains(&r.right) {
                continue;
            }
            for (k, sec) in r.secrets.iter().enumerate() {
                if !sec.hybrid {
                    continue;
                }
                // donor: a hybridized secret of a right that is not targeted
                let Some((di, dk)) = hybrid_secrets.iter().copied().find(|(di, _)| !target_rights.contains(&w.rights[*di].right)) else { continue };
                let _ = (i, k);
                let d = &w.rights[di].secrets[dk];
                let (ds, de) = (d.span.0 + 1 + wire::SC, d.span.1);
                let (ts, te) = (sec.span.0 + 1 + wire::SC, sec.span.1);
                if de - ds == te - ts && bytes[ds..de] != bytes[ts..te] {
                    out[ts..te].copy_from_slice(&bytes[ds..de]);
                    changed += 1;
                }
            }
        }
        if changed == 0 {
            return;
        }
        let Ok(k2) = UserSecretKey::deserialize(&out) else { return };
        let Ok(x) = XEnc::deserialize(&s.bytes) else { return };
        self.stats.check("pq-binding");
        self.stats.probe("ml-kem-key-swapped-in-user-key");
        let r = guard(|| self.users[user].cc.decaps(&k2, &x));
        self.outcomes.push("pq-binding".into());
        if let Ok(Ok(Some(_))) = r {
            self.fail(
                Class::Flavour,
                "decaps/hybridized-encapsulation-opens-without-the-right-ml-kem-key",
                format!("slot {slot} user {user}: {changed} decapsulation keys replaced"),
            );
        }
    }

    /// Encapsulations made from another OS thread on the same instance, one thread after the
    /// other (no race): freshness must hold across threads.
    pub fn ev_fresh_instances(&mut self, user: usize, e: usize, kpol: &PolArg, epol: &PolArg) {
        self.stats.probe("fresh-library-instances");
        for _ in 0..2 {
            // seeded by the library itself from the (interposed, per-run) entropy source
            let fresh = match guard(cosmian_cover_crypt::api::Covercrypt::default) {
                Ok(c) => c,
                Err(p) => {
                    self.fail(Class::Panic, "instance-creation/panic", p);
                    return;
                }
            };
            // key generation on the authority's master key through this instance
            let own = std::mem::replace(&mut self.auth.cc, fresh);
            self.ev_keygen(user, kpol);
            self.outcomes.pop();
            let fresh = std::mem::replace(&mut self.auth.cc, own);
            // encapsulation with an encryptor's public key through this instance
            if e < self.encryptors.len() && self.encryptors[e].mpk.is_some() {
                if let Some(ap) = self.parse_policy(epol) {
                    let (mpk, mm) = self.encryptors[e].mpk.as_ref().unwrap();
                    if let Ok(me) = mm.encaps(&epol.ast) {
                        if let Ok(Ok((s, x))) = guard(|| fresh.encaps(mpk, &ap)) {
                            if let Ok(b) = x.serialize() {
                                let (s, b) = (s.to_vec(), b.to_vec());
                                self.register_enc(&b, &s, "encaps-fresh-instance", &me);
                            }
                        }
                    }
                }
            }
        }
        self.outcomes.push("fresh-instances".into());
    }

    pub fn ev_encrypt_other_thread(&mut self, e: usize, pol: &PolArg, n: u32) {
        if e >= self.encryptors.len() || self.encryptors[e].mpk.is_none() {
            return;
        }
        let Some(ap) = self.parse_policy(pol) else { return };
        let (mpk, mm) = self.encryptors[e].mpk.as_ref().unwrap();
        if mm.encaps(&pol.ast).is_err() {
            return;
        }
        let me = mm.encaps(&pol.ast).unwrap();
        let cc = &self.encryptors[e].cc;
        let seed = self.seed ^ (self.now << 20) ^ 0x07E4;
        // several helper threads, one after the other (no race: which thread runs is never a
        // choice of the OS scheduler); a generator that is per OS thread, or sharded by thread
        // id, shows as values repeated between two of them
        let mut results: Vec<(Vec<u8>, Vec<u8>)> = vec![];
        for k in 0..5u64 {
            let part: Vec<(Vec<u8>, Vec<u8>)> = std::thread::scope(|sc| {
                sc.spawn(|| {
                    crate::seams::install_thread_seed(seed ^ (k << 8));
                    let mut out = vec![];
                    for _ in 0..n {
                        if let Ok(Ok((s, x))) = guard(|| cc.encaps(mpk, &ap)) {
                            if let Ok(b) = x.serialize() {
                                out.push((s.to_vec(), b.to_vec()));
                            }
                        }
                    }
                    out
                })
                .join()
                .unwrap_or_default()
            });
            results.extend(part);
        }
        self.stats.probe("encapsulation-from-another-os-thread");
        for (s, b) in results {
            self.register_enc(&b, &s, "encaps-other-thread", &me);
        }
        self.outcomes.push("encrypt-other-thread".into());
    }

    // -----------------------------------------------------------------------------------------
    // Reads
    // -----------------------------------------------------------------------------------------

    /// Result of opening a slot: Err / None / Some(secret, payload)
    fn open_slot(
        cc: &cosmian_cover_crypt::api::Covercrypt,
        usk: &UserSecretKey,
        kind: &SlotKind,
        bytes: &[u8],
        aad: Option<&[u8]>,
    ) -> Result<Result<Option<(Vec<u8>, Option<Vec<u8>>)>, String>, String> {
        guard(|| match kind {
            SlotKind::Kem => {
                let enc = XEnc::deserialize(bytes).map_err(|e| format!("deserialize: {e}"))?;
                let r = cc.decaps(usk, &enc).map_err(|e| e.to_string())?;
                Ok(r.map(|s| (s.to_vec(), None)))
            }
            SlotKind::Pke => {
                if bytes.is_empty() {
                    return Err("deserialize: empty".to_string());
                }
                let mut de = Deserializer::new(bytes);
                let enc = de.read::<XEnc>().map_err(|e| format!("deserialize: {e}"))?;
                let ctx = de.finalize();
                let r = PkeAc::<{ Aes256Gcm::KEY_LENGTH }, Aes256Gcm>::decrypt(cc, usk, &(enc, ctx))
                    .map_err(|e| e.to_string())?;
                Ok(r.map(|p| (vec![], Some(p.to_vec()))))
            }
            SlotKind::Header => {
                let h = EncryptedHeader::deserialize(bytes).map_err(|e| format!("deserialize: {e}"))?;
                let r = h.decrypt(cc, usk, aad).map_err(|e| e.to_string())?;
                Ok(r.map(|c| (c.secret.to_vec(), Some(c.metadata.unwrap_or_default()))))
            }
        })
    }

    pub fn ev_read(&mut self, user: usize, slot: usize) {
        if user >= self.users.len() || slot >= self.slots.len() {
            return;
        }
        let Some((usk, mu)) = &self.users[user].usk else {
            return;
        };
        let s0 = &self.slots[slot];
        let aad_used: Option<Vec<u8>> = match &s0.read_aad {
            Some(a) => a.clone(),
            None => s0.aad.clone(),
        };
        let r = Self::open_slot(&self.users[user].cc, usk, &s0.kind, &s0.bytes, aad_used.as_deref());
        let opaque = mu.unspecified;
        // A fault may have replaced the stored bytes wholesale by another valid object of the
        // store (torn write with cut 0, misdirected write): that is not a modification of an
        // encapsulation but another encapsulation, whose own expectations apply.
        let mut src = slot;
        if s0.bytes != s0.orig {
            for (j, o) in self.slots.iter().enumerate() {
                if j != slot && o.kind == s0.kind && o.orig == s0.bytes {
                    src = j;
                    break;
                }
            }
        }
        // Same idea across kinds: record-level faults can turn a stored encapsulation into the
        // complete, unmodified encapsulation carried by another stored object (a header's or a
        // ciphertext's). What it opens to is then that object's business: the only thing checked
        // is that nothing but that object's secret comes out.
        let cur_enc: Option<Vec<u8>> = if src == slot && s0.bytes != s0.orig {
            match s0.kind {
                SlotKind::Kem => Some(s0.bytes.clone()),
                // a header without encrypted metadata is an encapsulation and an empty field
                SlotKind::Header => wire::parse_header(&s0.bytes).ok().filter(|h| h.meta_span.0 == h.meta_span.1).map(|h| s0.bytes[..h.enc.end].to_vec()),
                SlotKind::Pke => None,
            }
        } else {
            None
        };
        if let Some(cur) = cur_enc {
            let donor = self.slots.iter().enumerate().find(|(j, o)| {
                *j != slot
                    && match o.kind {
                        SlotKind::Kem => s0.kind != SlotKind::Kem && o.orig == cur,
                        SlotKind::Pke => o.enc_len > 0 && o.orig.len() >= o.enc_len && o.orig[..o.enc_len] == cur[..],
                        SlotKind::Header => wire::parse_header(&o.orig).map(|h| o.orig[..h.enc.end] == cur[..]).unwrap_or(false),
                    }
            });
            if donor.is_some() {
                self.stats.probe("encapsulation-replaced-by-the-one-of-another-object");
                let out = match &r {
                    Err(_) => "panic",
                    Ok(Err(_)) => "err",
                    Ok(Ok(None)) => "none",
                    Ok(Ok(Some(_))) => "some",
                };
                self.outcomes.push(format!("read:{out}"));
                // (what it opens to is the seed of that object, which the store does not keep: a
                // header returns a secret derived from it)
                return;
            }
        }
        let bytes_now = s0.bytes.clone();
        let s = &self.slots[src];
        let tampered = bytes_now != s.orig;
        let aad_mismatch = s.kind == SlotKind::Header && s.meta.is_some() && norm_aad(&aad_used) != norm_aad(&s.aad);
        let expect_open = mu.opens(&s.m);
        let explain = mu.explain(&s.m);
        // Model self-check: while nothing was edited or rotated between the key, the MPK and the
        // encapsulation, the rights-level prediction must equal the name-level cover relation of
        // C01/C02 (two independent implementations of the statement).
        if let (Some((up, ue)), Some((ep, ee))) = (&self.users[user].pol, &s.pol) {
            // exact only when key, MPK and encapsulation all come from the state produced by the
            // last update, with no edit, rotation, restore or refresh since
            if *ue == self.epoch && *ee == self.epoch && self.last_update.0 == self.epoch && s.mpk_version >= self.last_update.1 {
                let name_level = self.auth.m.structure.policy_covers(up, ep);
                *self.stats.checks.entry("model-self-check").or_default() += 1;
                if name_level != expect_open {
                    *self.stats.probes.entry("MODEL-SELF-CHECK-MISMATCH").or_default() += 1;
                }
            }
        }
        let hybrid = s.m.hybrid;
        let from_recaps = s.from_recaps;
        let kind = s.kind.clone();
        let secret = s.secret.clone();
        let exp_payload: Option<Vec<u8>> = match kind {
            SlotKind::Kem => None,
            SlotKind::Pke => Some(s.ptx.clone()),
            SlotKind::Header => Some(s.meta.clone().unwrap_or_default()),
        };
        let kname = match kind {
            SlotKind::Kem => "kem",
            SlotKind::Pke => "pke",
            SlotKind::Header => "header",
        };
        let flav = if hybrid { "hybridized" } else { "classic" };
        let r = match r {
            Err(p) => {
                self.fail(Class::Panic, format!("read-{kname}/panic"), p.clone());
                if tampered {
                    self.fail(Class::Pke, format!("{kname}/panic-on-altered-input"), p.clone());
                    self.fail(Class::Tamper, format!("{kname}/panic-on-altered-input"), p);
                } else if expect_open && !opaque {
                    self.fail(Class::DecapsSome, format!("{kname}/panic/{flav}"), p);
                }
                self.outcomes.push("read:panic".into());
                return;
            }
            Ok(r) => r,
        };
        let out = match &r {
            Err(_) => "err",
            Ok(None) => "none",
            Ok(Some(_)) => "some",
        };
        self.outcomes.push(format!("read:{out}"));
        if opaque {
            return;
        }
        if tampered || aad_mismatch {
            // Is the mutation a no-op at object level?
            // C07 speaks about *bytes*: "changing any byte of its serialized form". A modified
            // byte string that still deserializes to an equal object (non-canonical encoding) is
            // a modification all the same; it is only told apart in the signature.
            let same_obj = tampered && !aad_mismatch && faults::same_object(&kind, &bytes_now, &self.slots[src].orig);
            let noop = false;
            if same_obj {
                self.stats.probe("modified-bytes-deserialize-to-equal-object");
            }
            if !noop {
                self.stats.check("tampered-read");
                if let Ok(Some((got_secret, got_payload))) = &r {
                    let same = *got_secret == secret && (exp_payload.is_none() || *got_payload == exp_payload);
                    // Header whose encapsulation is intact and whose encrypted metadata was removed
                    // altogether (length 0 on the wire = "no metadata").
                    let stripped = kind == SlotKind::Header && tampered && {
                        let o = &self.slots[src];
                        match (wire::parse_header(&bytes_now), wire::parse_header(&o.orig)) {
                            (Ok(a), Ok(b)) => {
                                a.meta_span.0 == a.meta_span.1
                                    && b.meta_span.0 != b.meta_span.1
                                    && bytes_now[..a.enc.end] == o.orig[..b.enc.end]
                            }
                            _ => false,
                        }
                    };
                    let what = if stripped {
                        format!("{kname}/metadata-stripped-accepted")
                    } else if aad_mismatch && !tampered {
                        format!("{kname}/authentication-data-mismatch-accepted")
                    } else {
                        format!("{kname}/{}/{flav}", if same_obj { "non-canonical-encoding-accepted" } else if same { "altered-input-yields-original" } else { "altered-input-yields-other-data" })
                    };
                    self.fail(Class::Tamper, what.clone(), format!("slot {slot} user {user}"));
                    if kind != SlotKind::Kem {
                        self.fail(Class::Pke, what, format!("slot {slot} user {user}"));
                    }
                } else {
                    self.stats.probe("tampered-rejected");
                    // C12: with the encapsulation intact and an authorized key, an altered or
                    // truncated symmetric part (or different authentication data) is an *error*,
                    // not "not authorized".
                    if kind != SlotKind::Kem && expect_open && matches!(r, Ok(None)) {
                        let o = &self.slots[src];
                        let enc_intact = match kind {
                            SlotKind::Pke => bytes_now.len() >= o.enc_len && bytes_now[..o.enc_len] == o.orig[..o.enc_len],
                            _ => match (wire::parse_header(&bytes_now), wire::parse_header(&o.orig)) {
                                (Ok(a), Ok(b)) => bytes_now[..a.enc.end] == o.orig[..b.enc.end],
                                _ => false,
                            },
                        };
                        if enc_intact {
                            self.fail(
                                Class::Pke,
                                format!("{kname}/altered-payload-reported-as-not-authorized"),
                                format!("slot {slot} user {user}"),
                            );
                        }
                    }
                }
                return;
            }
            self.stats.noop_mutations += 1;
            if std::env::var("CCSIM_DEBUG_NOOP").is_ok() {
                let o = &self.slots[src].orig;
                let diff: Vec<usize> = (0..bytes_now.len().min(o.len())).filter(|i| bytes_now[*i] != o[*i]).collect();
                eprintln!("NOOP kind {:?} len {} vs {} diff at {:?} enc_len {}", kind, bytes_now.len(), o.len(), &diff[..diff.len().min(8)], self.slots[src].enc_len);
            }
        }
        self.stats.check("decaps");
        if expect_open {
            self.stats.probe(if explain == "holds-older-revision" { "decaps-older-revision" } else { "decaps-newest-revision" });
            if from_recaps {
                self.stats.probe("decaps-of-recaps-output");
            }
            match r {
                Ok(Some((got_secret, got_payload))) => {
                    if kind != SlotKind::Pke && got_secret != secret {
                        self.fail(Class::DecapsSome, format!("{kname}/wrong-secret/{flav}/{explain}"), format!("slot {slot} user {user}"));
                        self.fail(Class::Pke, format!("{kname}/wrong-secret"), format!("slot {slot} user {user}"));
                        if from_recaps {
                            self.fail(Class::Recaps, "recaps-output/wrong-secret", format!("slot {slot} user {user}"));
                        }
                    }
                    if let Some(exp) = exp_payload {
                        self.stats.check("payload");
                        if got_payload != Some(exp.clone()) {
                            self.fail(Class::Pke, format!("{kname}/wrong-payload"), format!("slot {slot} user {user} len {}", exp.len()));
                            self.fail(Class::DecapsSome, format!("{kname}/wrong-payload/{flav}/{explain}"), format!("slot {slot} user {user}"));
                        }
                    }
                }
                other => {
                    let got = if other.is_err() { "got-err" } else { "got-none" };
                    let detail = format!("slot {slot} user {user} {:?}", other.as_ref().err());
                    self.fail(Class::DecapsSome, format!("{kname}/{got}/{flav}/{explain}"), detail.clone());
                    if kind != SlotKind::Kem {
                        self.fail(Class::Pke, format!("{kname}/authorized-{got}"), detail.clone());
                    }
                    if from_recaps {
                        self.fail(Class::Recaps, format!("recaps-output/authorized-key-{got}"), detail);
                    }
                }
            }
        } else {
            self.stats.probe(if explain == "holds-right-not-revision" { "decaps-refused-stale-revision" } else { "decaps-refused-no-right" });
            match r {
                Ok(None) => {}
                Ok(Some((got_secret, _))) => {
                    let same = got_secret == secret || kind == SlotKind::Pke;
                    let detail = format!("slot {slot} user {user}");
                    self.fail(
                        Class::DecapsNone,
                        format!("{kname}/{}/{flav}/{explain}", if same { "got-the-secret" } else { "got-other-secret" }),
                        detail.clone(),
                    );
                    if kind != SlotKind::Kem {
                        self.fail(Class::Pke, format!("{kname}/unauthorized-got-data"), detail.clone());
                    }
                    if from_recaps {
                        self.fail(Class::Recaps, "recaps-output/unauthorized-key-opens", detail);
                    }
                }
                Err(e) => {
                    // "not authorized" must be reported as None, not as an error
                    self.fail(Class::OkErr, format!("decaps-{kname}/expected-none-got-err"), e.clone());
                    if kind != SlotKind::Kem {
                        self.fail(Class::Pke, format!("{kname}/unauthorized-got-err"), e);
                    }
                }
            }
        }
    }

    /// Enumerated storage faults on one slot (C07 / C12): each mutant is read by one authorized
    /// and one unauthorized current key (when they exist); stops at the first failing observation.
    pub fn sweep_slot(&mut self, slot: usize, mode: &SweepMode, stride: usize) {
        if slot >= self.slots.len() || self.slots[slot].bytes != self.slots[slot].orig {
            return;
        }
        let stride = stride.max(1);
        let mut auth = None;
        let mut unauth = None;
        for (u, usr) in self.users.iter().enumerate() {
            if let Some((_, mu)) = &usr.usk {
                if mu.unspecified {
                    continue;
                }
                if mu.opens(&self.slots[slot].m) {
                    auth.get_or_insert(u);
                } else {
                    unauth.get_or_insert(u);
                }
            }
        }
        let readers: Vec<usize> = auth.into_iter().chain(unauth).collect();
        if readers.is_empty() {
            return;
        }
        let orig = self.slots[slot].orig.clone();
        let n_before = self.failed.len();
        let mut n = 0u64;
        const DISTS: [usize; 4] = [1, 8, 16, 32];
        let total = match mode {
            SweepMode::BitFlips => orig.len() * 8,
            SweepMode::Truncations => orig.len(),
            SweepMode::ByteOverwrites => orig.len(),
            SweepMode::XorPairs => orig.len() * DISTS.len(),
        };
        let mut i = 0;
        while i < total {
            let mut b = orig.clone();
            match mode {
                SweepMode::BitFlips => b[i / 8] ^= 1 << (i % 8),
                SweepMode::Truncations => b.truncate(i),
                SweepMode::ByteOverwrites => b[i] = b[i].wrapping_add(0x55) ^ 0xa7,
                SweepMode::XorPairs => {
                    let (p, d) = (i / DISTS.len(), DISTS[i % DISTS.len()]);
                    if p + d < b.len() {
                        b[p] ^= 0x10;
                        b[p + d] ^= 0x10;
                    }
                }
            }
            if b != orig {
                self.slots[slot].bytes = b;
                for u in &readers {
                    self.ev_read(*u, slot);
                    self.outcomes.pop();
                    n += 1;
                    if self.failed.len() > n_before && self.reduce_to.is_none() {
                        let op = match mode {
                            SweepMode::BitFlips => ByteOp::FlipBit { pos: i / 8, bit: (i % 8) as u8 },
                            SweepMode::Truncations => ByteOp::Truncate { len: i },
                            SweepMode::ByteOverwrites => ByteOp::SetByte { pos: i, val: orig[i].wrapping_add(0x55) ^ 0xa7 },
                            SweepMode::XorPairs => ByteOp::XorPair { pos: i / DISTS.len(), dist: DISTS[i % DISTS.len()], delta: 0x10 },
                        };
                        self.reduce_to = Some(vec![Ev::TamperSlot { slot, op }, Ev::Read { user: *u, slot }]);
                    }
                }
                if self.failed.len() > n_before {
                    // keep the failing mutant in the detail of the first failure
                    let pos = i;
                    if let Some(f) = self.failed.get_mut(n_before) {
                        f.detail = format!("{} (enumeration index {pos} of {total}, mode {:?})", f.detail, mode);
                    }
                    break;
                }
            }
            i += stride;
        }
        self.slots[slot].bytes = orig;
        let key = match mode {
            SweepMode::BitFlips => "enumerated-bit-flips",
            SweepMode::Truncations => "enumerated-truncations",
            SweepMode::ByteOverwrites => "enumerated-byte-overwrites",
            SweepMode::XorPairs => "enumerated-correlated-pairs",
        };
        *self.stats.checks.entry(key).or_default() += n;
        self.stats.probe(if stride == 1 { "sweep-slot-exhaustive" } else { "sweep-slot-strided" });
        self.outcomes.push(format!("sweep:{}", if self.failed.len() > n_before { "violation" } else { "clean" }));
    }

    /// Every re-framing operator at every applicable position on one user's key (C08).
    pub fn sweep_usk(&mut self, user: usize) {
        if user >= self.users.len() {
            return;
        }
        let Some((usk, m)) = &self.users[user].usk else { return };
        if m.unspecified {
            return;
        }
        let Ok(bytes) = usk.serialize() else { return };
        let bytes = bytes.to_vec();
        let m = m.clone();
        let n_rights = m.rights.len();
        let max_chain = m.rights.values().map(|c| c.len()).max().unwrap_or(1).min(4);
        // positions considered: all of them for keys of up to 10 rights, otherwise the first,
        // the last and evenly spread ones (the operator x position space is quadratic)
        let positions: Vec<usize> = if n_rights <= 10 {
            (0..n_rights).collect()
        } else {
            let mut p: Vec<usize> = vec![0, 1, 2, n_rights - 3, n_rights - 2, n_rights - 1];
            for k in 1..5 {
                p.push(k * n_rights / 5);
            }
            p.sort_unstable();
            p.dedup();
            p
        };
        let mut ops: Vec<UskOp> = vec![
            UskOp::MarkerIntoName,
            UskOp::Foreign,
            UskOp::StripSignature,
            UskOp::AddEmptyRight { other_user: user, j: 0, raw: vec![0x7e] },
            UskOp::AddEmptyRight { other_user: user, j: 0, raw: vec![0x7d, 0x7e] },
        ];
        for &i in &positions {
            ops.push(UskOp::MergeAdjacent { i });
            ops.push(UskOp::DupRight { i });
            ops.push(UskOp::DropRight { i });
            ops.push(UskOp::RenameRight { i, name: vec![0x7f] });
            ops.push(UskOp::RenameRight { i, name: vec![] });
            ops.push(UskOp::HybridToClassicShift { i });
            for k in (0..max_chain).chain([99_999usize, 50_000]) {
                ops.push(UskOp::DropSecret { i, k });
                ops.push(UskOp::DupSecret { i, k });
                ops.push(UskOp::SwapSecrets { i, k });
                ops.push(UskOp::FlipFlavourFlag { i, k });
                ops.push(UskOp::SplitChain { i, k });
            }
            for k in 1..4 {
                ops.push(UskOp::SplitName { i, k });
                ops.push(UskOp::ShiftNameBorder { i, k });
            }
            for &j in &positions {
                if i != j {
                    ops.push(UskOp::MoveSecret { from: i, to: j });
                    ops.push(UskOp::MoveSecretToEnd { from: i, to: j });
                    if j > i {
                        for k in 0..max_chain.min(2) {
                            for l in 0..max_chain.min(2) {
                                ops.push(UskOp::SwapSecretsAcross { i, k, j, l });
                            }
                        }
                    }
                    if j == i + 1 || (i == 0 && j == n_rights - 1) {
                        ops.push(UskOp::SwapRights { i, j });
                    }
                }
            }
        }
        for o in 0..self.users.len() {
            if o != user {
                ops.push(UskOp::IdFrom { other_user: o });
                ops.push(UskOp::RightsUnion { other_user: o });
                ops.push(UskOp::SignatureFrom { other_user: o });
                for j in 0..4 {
                    ops.push(UskOp::AddEmptyRight { other_user: o, j, raw: vec![] });
                }
            }
        }
        for pos in 0..32 {
            ops.push(UskOp::AlterSignature { pos, bit: (pos % 8) as u8 });
        }
        let n_before = self.failed.len();
        let mut n = 0u64;
        for op in ops {
            let Some(b2) = faults::apply_usk_op(self, user, &bytes, &op) else { continue };
            if b2 == bytes {
                continue;
            }
            let same_mac = match (faults::mac_view(&bytes), faults::mac_view(&b2)) {
                (Some(a), Some(b)) => a == b,
                _ => false,
            };
            let tag = format!("{}/{}", faults::usk_op_name(&op), if same_mac { "same-mac-input" } else { "different-mac-input" });
            self.stats.fault(faults::usk_op_name(&op));
            let keep = n % 2 == 0;
            self.serve_refresh(user, b2, m.clone(), keep, Some(tag), 0, false, true);
            self.outcomes.pop();
            n += 1;
        }
        *self.stats.checks.entry("enumerated-usk-reframings").or_default() += n;
        self.stats.probe("sweep-usk");
        self.outcomes.push(format!("sweep-usk:{}", if self.failed.len() > n_before { "violation" } else { "clean" }));
    }

    pub fn ev_audit(&mut self) {
        // every current key x every stored object, within a work budget: the cost of one read is
        // about (secrets in the key) x (components of the encapsulation); beyond the budget every
        // k-th pair is read (deterministically)
        let mut pairs: Vec<(usize, usize, usize)> = vec![];
        for u in 0..self.users.len() {
            let Some((_, mu)) = &self.users[u].usk else { continue };
            let kw: usize = mu.rights.values().map(|c| c.len()).sum::<usize>().max(1);
            for s in 0..self.slots.len() {
                pairs.push((u, s, kw * self.slots[s].m.targets.len().max(1)));
            }
        }
        let total: usize = pairs.iter().map(|p| p.2).sum();
        let stride = total.div_ceil(60_000).max(1);
        if stride > 1 {
            self.stats.probe("audit-sampled");
        }
        for (i, (u, s, _)) in pairs.iter().enumerate() {
            if i % stride != 0 {
                continue;
            }
            self.ev_read(*u, *s);
            self.outcomes.pop();
        }
        self.outcomes.push("audit".into());
    }

    // -----------------------------------------------------------------------------------------
    // Reload (crash + restart from durable bytes)
    // -----------------------------------------------------------------------------------------

    fn reload_obj<T: Serializable + PartialEq>(&mut self, obj: &T, name: &str) -> Option<T>
    where
        T::Error: std::fmt::Display,
    {
        self.stats.check("reload");
        let bytes = match guard(|| obj.serialize()) {
            Err(p) => {
                self.fail(Class::Reload, format!("{name}/serialize-panic"), p);
                return None;
            }
            Ok(Err(e)) => {
                self.fail(Class::Reload, format!("{name}/serialize-failed"), e.to_string());
                return None;
            }
            Ok(Ok(b)) => b,
        };
        if bytes.len() != obj.length() {
            self.fail(
                Class::Reload,
                format!("{name}/length-mismatch"),
                format!("length() {} serialized {}", obj.length(), bytes.len()),
            );
        }
        match guard(|| T::deserialize(&bytes)) {
            Err(p) => {
                self.fail(Class::Reload, format!("{name}/deserialize-panic"), p);
                None
            }
            Ok(Err(e)) => {
                self.fail(Class::Reload, format!("{name}/deserialize-failed"), e.to_string());
                None
            }
            Ok(Ok(o2)) => {
                if o2 != *obj {
                    self.fail(Class::Reload, format!("{name}/round-trip-not-equal"), String::new());
                }
                if self.wants(Class::Reload) {
                    self.read_in_sequence(obj, name);
                }
                Some(o2)
            }
        }
    }

    /// The object written twice to one stream (as when several objects share a file or a
    /// message) is read back twice with `Deserializer::read`: both values equal the original
    /// and nothing is left.
    fn read_in_sequence<T: Serializable + PartialEq>(&mut self, obj: &T, name: &str)
    where
        T::Error: std::fmt::Display,
    {
        use cosmian_crypto_core::bytes_ser_de::Serializer;
        self.stats.check("read-in-sequence");
        let r = guard(|| {
            let mut ser = Serializer::new();
            if ser.write(obj).is_err() || ser.write(obj).is_err() {
                return Err("write failed".to_string());
            }
            let bytes = ser.finalize();
            let mut de = Deserializer::new(&bytes);
            let a = de.read::<T>().map_err(|e| format!("first read: {e}"))?;
            let b = de.read::<T>().map_err(|e| format!("second read: {e}"))?;
            let rest = de.finalize().len();
            Ok((a == *obj, b == *obj, rest))
        });
        match r {
            Err(p) => self.fail(Class::Reload, format!("{name}/read-in-sequence/panic"), p),
            Ok(Err(e)) => self.fail(Class::Reload, format!("{name}/read-in-sequence/failed"), e),
            Ok(Ok((a, b, rest))) => {
                if !a || !b || rest != 0 {
                    self.fail(Class::Reload, format!("{name}/read-in-sequence/not-equal"), format!("first equal: {a}, second equal: {b}, {rest} bytes left"));
                }
            }
        }
    }

    pub fn ev_reload(&mut self, what: &ReloadTarget) {
        self.stats.fault("crash-restart");
        match what {
            ReloadTarget::Msk => {
                let msk = std::mem::replace(&mut self.auth.msk, dummy_msk());
                let r = self.reload_obj(&msk, "msk");
                if r.is_none() {
                    // the record of issued identifiers does not survive the round trip (C17)
                    self.fail(Class::Tracing, "reload-msk/registration-lost", "the master key cannot be read back");
                }
                self.auth.msk = r.unwrap_or(msk);
                self.check_registered_ids("reload-msk");
            }
            ReloadTarget::AuthorityMpk => {
                let mpk = std::mem::replace(&mut self.auth.mpk, dummy_mpk());
                let r = self.reload_obj(&mpk, "mpk");
                self.auth.mpk = r.unwrap_or(mpk);
            }
            ReloadTarget::EncryptorMpk(i) => {
                if *i < self.encryptors.len() {
                    if let Some((mpk, mm)) = self.encryptors[*i].mpk.take() {
                        let r = self.reload_obj(&mpk, "mpk");
                        self.encryptors[*i].mpk = Some((r.unwrap_or(mpk), mm));
                    }
                }
            }
            ReloadTarget::Usk(i) => {
                if *i < self.users.len() {
                    if let Some((usk, mu)) = self.users[*i].usk.take() {
                        let r = self.reload_obj(&usk, "usk");
                        self.users[*i].usk = Some((r.unwrap_or(usk), mu));
                    }
                }
            }
            ReloadTarget::Structure => {
                let s = self.auth.msk.access_structure.clone();
                if let Some(s2) = self.reload_obj(&s, "structure") {
                    self.auth.msk.access_structure = s2;
                }
            }
            ReloadTarget::Slot(i) => {
                if *i < self.slots.len() && self.slots[*i].bytes == self.slots[*i].orig {
                    let kind = self.slots[*i].kind.clone();
                    let bytes = self.slots[*i].bytes.clone();
                    match kind {
                        SlotKind::Kem => {
                            if let Ok(x) = XEnc::deserialize(&bytes) {
                                if let Some(x2) = self.reload_obj(&x, "xenc") {
                                    if let Ok(b) = x2.serialize() {
                                        if b.to_vec() != bytes {
                                            self.fail(Class::Reload, "xenc/bytes-not-stable", String::new());
                                        }
                                    }
                                }
                            } else {
                                self.fail(Class::Reload, "xenc/deserialize-failed", String::new());
                            }
                        }
                        SlotKind::Header => {
                            if let Ok(x) = EncryptedHeader::deserialize(&bytes) {
                                if let Some(x2) = self.reload_obj(&x, "encrypted-header") {
                                    if let Ok(b) = x2.serialize() {
                                        if b.to_vec() != bytes {
                                            self.fail(Class::Reload, "encrypted-header/bytes-not-stable", String::new());
                                        }
                                    }
                                }
                            } else {
                                self.fail(Class::Reload, "encrypted-header/deserialize-failed", String::new());
                            }
                        }
                        SlotKind::Pke => {}
                    }
                }
            }
            ReloadTarget::Cleartext(slot) => {
                // Decrypt a header with some authorized user and round-trip the cleartext header.
                if *slot < self.slots.len() && self.slots[*slot].kind == SlotKind::Header && self.slots[*slot].bytes == self.slots[*slot].orig {
                    let bytes = self.slots[*slot].bytes.clone();
                    let aad = self.slots[*slot].aad.clone();
                    let mut ct = None;
                    for u in &self.users {
                        if let Some((usk, mu)) = &u.usk {
                            if mu.opens(&self.slots[*slot].m) && !mu.unspecified {
                                if let Ok(h) = EncryptedHeader::deserialize(&bytes) {
                                    if let Ok(Some(c)) = h.decrypt(&u.cc, usk, aad.as_deref()) {
                                        ct = Some(c);
                                        break;
                                    }
                                }
                            }
                        }
                    }
                    if let Some(c) = ct {
                        self.stats.probe("cleartext-header-reload");
                        // absent and empty metadata are the same value on the wire
                        let norm = cosmian_cover_crypt::CleartextHeader {
                            secret: c.secret.clone(),
                            metadata: match &c.metadata {
                                Some(v) if v.is_empty() => None,
                                other => other.clone(),
                            },
                        };
                        if let Ok(b) = c.serialize() {
                            if b.len() != c.length() {
                                self.fail(Class::Reload, "cleartext-header/length-mismatch", String::new());
                            }
                            match cosmian_cover_crypt::CleartextHeader::deserialize(&b) {
                                Ok(c2) => {
                                    if c2 != norm {
                                        self.fail(Class::Reload, "cleartext-header/round-trip-not-equal", String::new());
                                    }
                                }
                                Err(e) => self.fail(Class::Reload, "cleartext-header/deserialize-failed", e.to_string()),
                            }
                        }
                    }
                }
            }
        }
        self.outcomes.push("reload".into());
    }

    // -----------------------------------------------------------------------------------------
    // Backup / restore of the authority
    // -----------------------------------------------------------------------------------------

    pub fn ev_backup(&mut self) {
        if let Ok(b) = self.auth.msk.serialize() {
            self.auth.backups.push((b.to_vec(), self.auth.m.clone(), self.now));
            self.outcomes.push("backup".into());
        }
    }

    pub fn ev_restore(&mut self, idx: usize) {
        if idx >= self.auth.backups.len() {
            return;
        }
        let (bytes, m, t) = self.auth.backups[idx].clone();
        match MasterSecretKey::deserialize(&bytes) {
            Ok(msk) => {
                self.stats.fault("restore-from-backup");
                let next_rev = self.auth.m.next_rev;
                let next_ident = self.auth.m.next_ident;
                self.auth.msk = msk;
                self.auth.m = m;
                // identities and revisions stay unique across the roll-back
                self.auth.m.next_rev = next_rev;
                self.auth.m.next_ident = next_ident;
                self.lost_windows.push((t, self.now));
                // the rolled-back MSK may predate the updates that recorded disabled attributes
                self.disabled_ids.clear();
                // later backups belong to the lost window
                self.auth.backups.truncate(idx + 1);
                if let Ok(mpk) = self.auth.msk.mpk() {
                    self.auth.mpk_version += 1;
                    self.auth.mmpk = self.auth.m.mpk(self.auth.mpk_version);
                    self.auth.mpk = mpk;
                }
                self.outcomes.push("restore".into());
            }
            Err(e) => self.fail(Class::Reload, "msk/deserialize-failed", e.to_string()),
        }
    }

    // -----------------------------------------------------------------------------------------
    // Re-encapsulation
    // -----------------------------------------------------------------------------------------

    pub fn ev_recaps(&mut self, slot: usize, stale_from: Option<usize>) {
        if slot >= self.slots.len() {
            return;
        }
        if self.slots[slot].kind != SlotKind::Kem || self.slots[slot].bytes != self.slots[slot].orig {
            return;
        }
        let Ok(enc) = XEnc::deserialize(&self.slots[slot].bytes) else { return };
        let (mpk, mm): (&MasterPublicKey, MMpk) = match stale_from {
            Some(e) => match self.encryptors.get(e).and_then(|x| x.mpk.as_ref()) {
                Some((mpk, mm)) => (mpk, mm.clone()),
                None => return,
            },
            None => (&self.auth.mpk, self.auth.mmpk.clone()),
        };
        let a = &self.auth;
        let r = guard(|| a.cc.recaps(&a.msk, mpk, &enc));
        let current = self.auth.m.mpk(0).keys;
        let strict = mm.keys == current;
        let old = self.slots[slot].m.clone();
        let openable = self.auth.m.openable(&old);
        let expected: BTreeSet<MRight> = openable.iter().filter(|r| mm.keys.contains_key(*r)).cloned().collect();
        let r = match r {
            Err(p) => {
                self.fail(Class::Panic, "recaps/panic", p.clone());
                self.fail(Class::Recaps, "recaps/panic", p);
                self.outcomes.push("recaps:panic".into());
                return;
            }
            Ok(r) => r,
        };
        self.outcomes.push(format!("recaps:{}", if r.is_ok() { "ok" } else { "err" }));
        if !strict {
            self.stats.probe("recaps-with-stale-mpk");
            // Only what holds under every reading: a fresh secret.
            if let Ok((s, _)) = &r {
                if s.to_vec() == self.slots[slot].secret {
                    self.fail(Class::Recaps, "recaps/secret-not-renewed", "stale mpk");
                }
            }
            return;
        }
        self.stats.check("recaps");
        if expected.len() < old.targets.len() && !expected.is_empty() {
            self.stats.probe("recaps-narrows-audience");
        }
        if old.targets.len() > 1 {
            self.stats.probe("recaps-multi-target");
        }
        match r {
            Err(e) => {
                if !expected.is_empty() {
                    let lost: Vec<&str> = old
                        .targets
                        .keys()
                        .filter(|r| !expected.contains(*r))
                        .map(|r| {
                            if !openable.contains(r) {
                                "unopenable"
                            } else if self.auth.m.secrets.get(r).map(|c| c.enc_disabled).unwrap_or(false) {
                                "disabled"
                            } else {
                                "unpublished"
                            }
                        })
                        .collect();
                    self.fail(
                        Class::Recaps,
                        format!("recaps/failed-although-rights-recoverable/other-targets={}", lost.first().copied().unwrap_or("none")),
                        format!("{} of {} targets recoverable: {}", expected.len(), old.targets.len(), e),
                    );
                    self.fail(Class::OkErr, "recaps/expected-ok-got-err", e.to_string());
                } else {
                    self.stats.probe("recaps-nothing-recoverable");
                }
            }
            Ok((s, x)) => {
                if expected.is_empty() {
                    self.fail(Class::Recaps, "recaps/succeeded-with-no-recoverable-right", String::new());
                    self.fail(Class::OkErr, "recaps/expected-err-got-ok", String::new());
                    return;
                }
                if s.to_vec() == self.slots[slot].secret {
                    self.fail(Class::Recaps, "recaps/secret-not-renewed", String::new());
                }
                // "a new secret": also new with respect to every earlier re-encapsulation
                if !self.fresh.entry("recaps-secret").or_default().insert(s.to_vec()) {
                    self.fail(Class::Recaps, "recaps/secret-repeated-across-recaps", String::new());
                }
                let Ok(me) = mm.encaps_rights(&expected) else { return };
                let Ok(b) = x.serialize() else { return };
                if let Ok(w) = wire::parse_enc(&b) {
                    if w.encs.len() != expected.len() {
                        self.fail(
                            Class::Recaps,
                            format!("recaps/target-count/{}", if w.encs.len() > expected.len() { "more" } else { "fewer" }),
                            format!("{} vs expected {}", w.encs.len(), expected.len()),
                        );
                    }
                }
                self.register_enc(&b, &s.to_vec(), "recaps", &me);
                let l = b.len();
                self.slots.push(Slot {
                    kind: SlotKind::Kem,
                    orig: b.to_vec(),
                    bytes: b.to_vec(),
                    enc_len: l,
                    m: me,
                    secret: s.to_vec(),
                    ptx: vec![],
                    meta: None,
                    aad: None,
                    read_aad: None,
                    from_recaps: true,
                    born_event: self.stats.events as usize - 1,
                    pol: None,
                    mpk_version: 0,
                });
                // Decaps matrix of the output, immediately.
                let new_slot = self.slots.len() - 1;
                for u in 0..self.users.len() {
                    if self.users[u].usk.is_some() {
                        self.ev_read(u, new_slot);
                        self.outcomes.pop();
                    }
                }
            }
        }
    }
}

fn dummy_msk() -> MasterSecretKey {
    thread_local! {
        static BYTES: std::cell::RefCell<Option<Vec<u8>>> = const { std::cell::RefCell::new(None) };
    }
    BYTES.with(|b| {
        let mut b = b.borrow_mut();
        if b.is_none() {
            let cc = crate::seams::seeded_cc(0, 999);
            let (msk, _) = cc.setup().expect("setup");
            *b = Some(msk.serialize().expect("ser").to_vec());
        }
        MasterSecretKey::deserialize(b.as_ref().unwrap()).expect("de")
    })
}

fn dummy_mpk() -> MasterPublicKey {
    dummy_msk().mpk().expect("mpk")
}

#[allow(dead_code)]
fn _unused(_: BTreeMap<u8, u8>) {}
