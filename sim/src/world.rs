//! The simulated deployment: one authority, encryptors, users and a store, connected by a
//! simulated network (serialized bytes only) and advanced in lock-step with the reference model.

use std::collections::{BTreeMap, BTreeSet};

use cosmian_cover_crypt::{
    api::Covercrypt, AccessPolicy, AccessStructure, EncryptionHint, MasterPublicKey,
    MasterSecretKey, QualifiedAttribute, UserSecretKey,
};
use cosmian_crypto_core::bytes_ser_de::Serializable;

use crate::events::*;
use crate::model::*;
use crate::obs::{Class, Obs};
use crate::seams::{guard, seeded_cc};
use crate::wire;

pub struct Authority {
    pub cc: Covercrypt,
    pub msk: MasterSecretKey,
    pub m: MMsk,
    /// Latest MPK produced by any operation, with its model twin.
    pub mpk: MasterPublicKey,
    pub mmpk: MMpk,
    pub mpk_version: u64,
    /// (bytes, model, time) of persisted snapshots.
    pub backups: Vec<(Vec<u8>, MMsk, u64)>,
}

pub struct Encryptor {
    pub cc: Covercrypt,
    pub mpk: Option<(MasterPublicKey, MMpk)>,
}

pub struct User {
    pub cc: Covercrypt,
    pub usk: Option<(UserSecretKey, MUsk)>,
    /// Policy the current key was generated for, and the structure epoch at that time.
    pub pol: Option<(crate::model::Pol, u64)>,
}

#[derive(Clone, Debug, PartialEq, Eq)]
pub enum SlotKind {
    Kem,
    Pke,
    Header,
}

pub struct Slot {
    pub kind: SlotKind,
    /// Current stored bytes (possibly faulted): serialized XEnc, or XEnc ++ DEM ciphertext, or
    /// serialized EncryptedHeader.
    pub bytes: Vec<u8>,
    pub orig: Vec<u8>,
    pub enc_len: usize,
    pub m: MEnc,
    pub secret: Vec<u8>,
    pub ptx: Vec<u8>,
    pub meta: Option<Vec<u8>>,
    pub aad: Option<Vec<u8>>,
    /// Set by a fault that asks the *reader* to present different authentication data.
    pub read_aad: Option<Option<Vec<u8>>>,
    pub from_recaps: bool,
    /// Index of the event that created this slot (for slot-aware minimisation).
    pub born_event: usize,
    /// Encryption policy (AST) and version of the structure it was evaluated in.
    pub pol: Option<(crate::model::Pol, u64)>,
    /// Version of the MPK it was made under.
    pub mpk_version: u64,
}

pub enum Msg {
    Mpk { to: usize, bytes: Vec<u8>, m: MMpk },
    RefreshReq { from: usize, bytes: Vec<u8>, m: MUsk, keep: bool, tamper: Option<String> },
    RefreshReply { to: usize, bytes: Vec<u8>, m: MUsk },
}

#[derive(Default, Clone, Debug)]
pub struct Stats {
    pub events: u64,
    pub by_kind: BTreeMap<&'static str, u64>,
    pub checks: BTreeMap<&'static str, u64>,
    pub probes: BTreeMap<&'static str, u64>,
    pub faults: BTreeMap<&'static str, u64>,
    pub ignored_obs: BTreeMap<&'static str, u64>,
    pub unobservable: u64,
    pub parse_failures: u64,
    pub noop_mutations: u64,
}

impl Stats {
    pub fn check(&mut self, k: &'static str) {
        *self.checks.entry(k).or_default() += 1;
    }
    pub fn probe(&mut self, k: &'static str) {
        *self.probes.entry(k).or_default() += 1;
    }
    pub fn fault(&mut self, k: &'static str) {
        *self.faults.entry(k).or_default() += 1;
    }
}

pub struct World {
    pub seed: u64,
    pub auth: Authority,
    pub auth2: Option<(Covercrypt, MasterSecretKey)>,
    pub encryptors: Vec<Encryptor>,
    pub users: Vec<User>,
    pub slots: Vec<Slot>,
    pub net: BTreeMap<(u64, u64), Msg>,
    pub now: u64,
    pub seq: u64,
    pub next_kid: u64,
    /// Serialized form of every user key version this authority issued -> its model twin.
    pub issued: BTreeMap<Vec<u8>, MUsk>,
    /// (t_backup, t_restore) windows that were rolled back.
    pub lost_windows: Vec<(u64, u64)>,
    /// Freshness registry: value class -> values seen.
    pub fresh: BTreeMap<&'static str, BTreeSet<Vec<u8>>>,
    /// Published H points per (right bytes) that were already seen, with the model revision.
    pub published: BTreeMap<(Vec<u8>, Rev), Vec<u8>>,
    /// ML-KEM encapsulation keys seen in public keys, by (right, revision).
    pub published_ek: BTreeMap<(Vec<u8>, Rev), Vec<u8>>,
    pub failed: Vec<Obs>,
    pub stats: Stats,
    /// Abstract outcome per event (for twin runs, fingerprints and samples).
    pub outcomes: Vec<String>,
    pub state_hashes: Vec<u64>,
    /// Skip expensive checks not needed by the running property.
    pub want: BTreeSet<Class>,
    pub cleartexts: Vec<Vec<u8>>,
    /// SUT ids of attributes that were disabled at the time of a successful update.
    pub disabled_ids: BTreeSet<u64>,
    /// Incremented by every structure edit, rekey, prune and restore: two objects made in the
    /// same epoch can be compared with the name-level cover relation.
    pub epoch: u64,
    /// Epoch and MPK version at the last successful update.
    pub last_update: (u64, u64),
    /// Set by an enumeration sweep that found a failing mutant: the explicit events equivalent to
    /// that single mutant (the runner substitutes them for the sweep event in the trace).
    pub reduce_to: Option<Vec<Ev>>,
}

/// Interns a dynamically built counter name (bounded set of names).
pub fn intern(s: &str) -> &'static str {
    use std::sync::Mutex;
    static TABLE: Mutex<Vec<&'static str>> = Mutex::new(Vec::new());
    let mut t = TABLE.lock().unwrap();
    if let Some(x) = t.iter().find(|x| **x == s) {
        return x;
    }
    let leaked: &'static str = Box::leak(s.to_string().into_boxed_str());
    t.push(leaked);
    leaked
}

fn qa(d: &str, a: &str) -> QualifiedAttribute {
    QualifiedAttribute::new(d, a)
}

pub fn fnv(h: &mut u64, b: &[u8]) {
    for x in b {
        *h ^= *x as u64;
        *h = h.wrapping_mul(0x100000001b3);
    }
}

impl World {
    pub fn new(seed: u64, n_users: usize, n_encryptors: usize, want: &[Class]) -> Result<Self, String> {
        let cc = seeded_cc(seed, 0);
        let (msk, mpk) = cc.setup().map_err(|e| format!("setup failed: {e}"))?;
        let m = MMsk::new();
        let mmpk = m.mpk(0);
        let auth = Authority {
            cc,
            msk,
            m,
            mpk,
            mmpk,
            mpk_version: 0,
            backups: vec![],
        };
        let encryptors = (0..n_encryptors)
            .map(|i| Encryptor {
                cc: seeded_cc(seed, 100 + i as u64),
                mpk: None,
            })
            .collect();
        let users = (0..n_users)
            .map(|i| User {
                cc: seeded_cc(seed, 200 + i as u64),
                usk: None,
                pol: None,
            })
            .collect();
        Ok(World {
            seed,
            auth,
            auth2: None,
            encryptors,
            users,
            slots: vec![],
            net: BTreeMap::new(),
            now: 0,
            seq: 0,
            next_kid: 1,
            issued: BTreeMap::new(),
            lost_windows: vec![],
            fresh: BTreeMap::new(),
            published: BTreeMap::new(),
            published_ek: BTreeMap::new(),
            failed: vec![],
            stats: Stats::default(),
            outcomes: vec![],
            state_hashes: vec![],
            want: want.iter().copied().collect(),
            cleartexts: vec![],
            disabled_ids: BTreeSet::new(),
            epoch: 0,
            last_update: (u64::MAX, 0),
            reduce_to: None,
        })
    }

    pub fn wants(&self, c: Class) -> bool {
        self.want.contains(&c)
    }

    pub fn fail(&mut self, class: Class, what: impl Into<String>, detail: impl Into<String>) {
        // error messages of the library may quote the whole input (megabytes): keep the head
        let mut detail: String = detail.into();
        if detail.len() > 400 {
            let mut cut = 400;
            while !detail.is_char_boundary(cut) {
                cut -= 1;
            }
            detail.truncate(cut);
            detail.push_str(" ...");
        }
        self.failed.push(Obs {
            class,
            what: what.into(),
            detail,
        });
    }

    fn send(&mut self, delay: u32, msg: Msg) {
        self.seq += 1;
        self.net.insert((self.now + delay as u64, self.seq), msg);
    }

    /// SUT right bytes of a model right, if every attribute's SUT id is known.
    pub fn sut_right(&self, r: &MRight) -> Option<Vec<u8>> {
        let mut ids = vec![];
        for id in r {
            ids.push(*self.auth.m.sut_ids.get(id)?);
        }
        Some(wire::right_bytes(&ids))
    }

    pub fn right_label(&self, r: &MRight) -> String {
        let mut parts = vec![];
        for id in r {
            parts.push(format!("a{id}"));
        }
        format!("{{{}}}", parts.join(","))
    }

    fn is_lost_window(&self, born: u64) -> bool {
        self.lost_windows.iter().any(|(tb, tr)| *tb < born && born <= *tr)
    }

    // -----------------------------------------------------------------------------------------
    // State snapshots for "unchanged on Err"
    // -----------------------------------------------------------------------------------------

    pub fn snap_msk(&mut self) -> Option<Vec<u8>> {
        if !self.wants(Class::Unchanged) && !self.wants(Class::Forged) {
            return None;
        }
        self.auth.msk.serialize().ok().map(|b| b.to_vec())
    }

    pub fn check_msk_unchanged(&mut self, before: &Option<Vec<u8>>, op: &str, cause: &str, class: Class) {
        let Some(before) = before else { return };
        self.stats.check("unchanged-msk");
        // which failing call (operation / error cause) was used as a crash point
        self.stats.probe(intern(&format!("crash-point/{op}/{cause}")));
        match MasterSecretKey::deserialize(before) {
            Ok(old) => {
                if old != self.auth.msk {
                    let after_len = self.auth.msk.serialize().map(|b| b.len()).unwrap_or(0);
                    self.fail(
                        class,
                        format!("{op}/{cause}/msk-changed"),
                        format!("msk bytes {} -> {}", before.len(), after_len),
                    );
                }
            }
            Err(e) => {
                self.stats.unobservable += 1;
                let _ = e;
            }
        }
    }

    // -----------------------------------------------------------------------------------------
    // Structural checks on the MSK / MPK bytes
    // -----------------------------------------------------------------------------------------

    pub fn check_msk_shape(&mut self, op: &str) {
        if !(self.wants(Class::MskShape) || self.wants(Class::Flavour)) {
            return;
        }
        let Ok(bytes) = self.auth.msk.serialize() else { return };
        let Ok(w) = wire::parse_msk(&bytes) else {
            self.stats.unobservable += 1;
            return;
        };
        self.stats.check("msk-shape");
        let mut expected: BTreeMap<Vec<u8>, (usize, bool, bool)> = BTreeMap::new();
        for (r, c) in &self.auth.m.secrets {
            match self.sut_right(r) {
                Some(b) => {
                    expected.insert(b, (c.revs.len(), c.hybrid, c.enc_disabled));
                }
                None => {
                    self.stats.unobservable += 1;
                    return;
                }
            }
        }
        if expected.len() != self.auth.m.secrets.len() {
            // two model rights map to the same SUT right (id reuse): C03's business
            self.stats.unobservable += 1;
            return;
        }
        let got_rights: BTreeSet<&Vec<u8>> = w.rights.keys().collect();
        let exp_rights: BTreeSet<&Vec<u8>> = expected.keys().collect();
        if got_rights != exp_rights {
            self.fail(
                Class::MskShape,
                format!("{op}/rights-set"),
                format!("msk has {} rights, model {}", got_rights.len(), exp_rights.len()),
            );
            return;
        }
        let mut fails = vec![];
        for (r, chain) in &w.rights {
            let (len, hybrid, disabled) = expected[r];
            if chain.len() != len {
                fails.push((
                    Class::MskShape,
                    format!("{op}/chain-length/{}", if chain.len() > len { "longer" } else { "shorter" }),
                    format!("right {:?}: msk chain {} model {}", r, chain.len(), len),
                ));
            }
            if chain.iter().any(|s| s.secret.hybrid != hybrid) {
                fails.push((
                    Class::Flavour,
                    format!("{op}/msk-secret/{}", if hybrid { "expected-hybridized" } else { "expected-classic" }),
                    format!("right {:?}", r),
                ));
            }
            if let Some(first) = chain.first() {
                if first.activated == disabled {
                    fails.push((
                        Class::MpkKeys,
                        format!("{op}/msk-activation-flag/{}", if disabled { "expected-disabled" } else { "expected-enabled" }),
                        format!("right {:?}", r),
                    ));
                }
            }
        }
        for (c, w, d) in fails {
            self.fail(c, w, d);
        }
    }

    /// No right published by `mpk` may contain the id of an attribute disabled before an update.
    pub fn check_mpk_disabled_ids(&mut self, mpk: &MasterPublicKey, op: &str) {
        if !self.wants(Class::MpkKeys) || self.disabled_ids.is_empty() {
            return;
        }
        let Ok(bytes) = mpk.serialize() else { return };
        let Ok(w) = wire::parse_mpk(&bytes) else {
            self.stats.unobservable += 1;
            return;
        };
        self.stats.check("mpk-disabled-ids");
        for r in w.keys.keys() {
            let mut rd = wire::Rd::new(r);
            while rd.rest() > 0 {
                match rd.leb() {
                    Ok(id) => {
                        if self.disabled_ids.contains(&id) {
                            self.fail(
                                Class::MpkKeys,
                                format!("{op}/publishes-right-of-disabled-attribute"),
                                format!("right {:?} contains disabled attribute id {id}", r),
                            );
                            return;
                        }
                    }
                    Err(_) => break,
                }
            }
        }
    }

    /// Checks an MPK (SUT object + model twin) through its bytes.
    pub fn check_mpk(&mut self, mpk: &MasterPublicKey, mm: &MMpk, op: &str) {
        if !(self.wants(Class::MpkKeys) || self.wants(Class::Flavour) || self.wants(Class::Fresh) || self.wants(Class::Tracing)) {
            return;
        }
        let Ok(bytes) = mpk.serialize() else { return };
        let Ok(w) = wire::parse_mpk(&bytes) else {
            self.stats.unobservable += 1;
            return;
        };
        self.stats.check("mpk");
        let mut expected: BTreeMap<Vec<u8>, (Rev, bool)> = BTreeMap::new();
        for (r, (rev, h)) in &mm.keys {
            match self.sut_right(r) {
                Some(b) => {
                    expected.insert(b, (*rev, *h));
                }
                None => {
                    self.stats.unobservable += 1;
                    return;
                }
            }
        }
        if expected.len() != mm.keys.len() {
            self.stats.unobservable += 1;
            return;
        }
        let mut fails = vec![];
        for r in w.keys.keys() {
            if !expected.contains_key(r) {
                // Is it a right the model knows as disabled?
                let disabled = self.auth.m.secrets.iter().any(|(mr, c)| {
                    c.enc_disabled && self.sut_right(mr).as_ref() == Some(r)
                });
                fails.push((
                    Class::MpkKeys,
                    format!("{op}/unexpected-key/{}", if disabled { "disabled-right" } else { "unknown-right" }),
                    format!("right {:?}", r),
                ));
            }
        }
        for r in expected.keys() {
            if !w.keys.contains_key(r) {
                fails.push((Class::MpkKeys, format!("{op}/missing-key"), format!("right {:?}", r)));
            }
        }
        for (r, (hybrid, h)) in &w.keys {
            if let Some((rev, mh)) = expected.get(r) {
                if hybrid != mh {
                    fails.push((
                        Class::Flavour,
                        format!("{op}/mpk-key/{}", if *mh { "expected-hybridized" } else { "expected-classic" }),
                        format!("right {:?}", r),
                    ));
                }
                // Freshness of published points: a (right, revision) may be re-published, any
                // other repetition of a point is a violation.
                if self.wants(Class::Fresh) {
                    let mut clash = None;
                    for ((r2, rev2), h2) in &self.published {
                        if h2 == h && !(r2 == r && rev2 == rev) {
                            clash = Some(format!("point of right {:?} rev {} equals right {:?} rev {}", r, rev, r2, rev2));
                        }
                    }
                    if let Some(c) = clash {
                        fails.push((Class::Fresh, format!("{op}/published-point-repeated"), c));
                    }
                }
            }
        }
        if self.wants(Class::Fresh) || self.wants(Class::Flavour) {
            // ML-KEM material: every (right, revision) has its own key pair. The same
            // encapsulation key under two rights, or under two revisions of a right, means the
            // post-quantum half of one is opened by the holder of the other.
            for (r, ek) in &w.eks {
                let Some((rev, _)) = expected.get(r) else { continue };
                let clash = self
                    .published_ek
                    .iter()
                    .find(|((r2, rev2), ek2)| *ek2 == ek && !(r2 == r && rev2 == rev))
                    .map(|((r2, rev2), _)| format!("ML-KEM key of right {:?} rev {} equals right {:?} rev {}", r, rev, r2, rev2));
                if let Some(c) = clash {
                    fails.push((Class::Fresh, format!("{op}/published-mlkem-key-repeated"), c.clone()));
                    fails.push((Class::Flavour, format!("{op}/mlkem-key-shared-between-secrets"), c));
                }
            }
            for (r, ek) in &w.eks {
                if let Some((rev, _)) = expected.get(r) {
                    self.published_ek.insert((r.clone(), *rev), ek.clone());
                }
            }
        }
        if self.wants(Class::Fresh) {
            // a right the model does not expect to be published must not come back with a
            // point that was published before either
            for (r, (_, h)) in &w.keys {
                if !expected.contains_key(r) && self.published.values().any(|h2| h2 == h) {
                    fails.push((Class::Fresh, format!("{op}/superseded-point-published-again"), format!("right {:?}", r)));
                }
            }
            for (r, (_, h)) in &w.keys {
                if let Some((rev, _)) = expected.get(r) {
                    self.published.insert((r.clone(), *rev), h.clone());
                }
            }
        }
        for (c, w, d) in fails {
            self.fail(c, w, d);
        }
    }

    // -----------------------------------------------------------------------------------------
    // Structure edits
    // -----------------------------------------------------------------------------------------

    fn edit(
        &mut self,
        op: &'static str,
        sut: impl FnOnce(&mut AccessStructure) -> Result<(), cosmian_cover_crypt::Error>,
        model: impl FnOnce(&mut MMsk) -> Result<(), EditErr>,
    ) -> bool {
        let before = self.snap_msk();
        let r = guard(|| sut(&mut self.auth.msk.access_structure));
        let mut m2 = self.auth.m.clone();
        let mr = model(&mut m2);
        match r {
            Err(p) => {
                self.fail(Class::Panic, format!("{op}/panic"), p);
                self.outcomes.push(format!("{op}:panic"));
                false
            }
            Ok(r) => {
                self.stats.check("ok-err");
                self.outcomes.push(format!("{op}:{}", if r.is_ok() { "ok" } else { "err" }));
                if r.is_ok() != mr.is_ok() {
                    self.fail(
                        Class::OkErr,
                        format!(
                            "{op}/{}",
                            if mr.is_ok() { "expected-ok-got-err".to_string() } else { format!("expected-err-got-ok/{:?}", mr.unwrap_err()) }
                        ),
                        format!("sut: {:?}", r.as_ref().err().map(|e| e.to_string())),
                    );
                }
                if r.is_err() {
                    let cause = match mr {
                        Err(e) => format!("{e:?}"),
                        Ok(_) => "unexpected".to_string(),
                    };
                    self.check_msk_unchanged(&before, op, &cause, Class::Unchanged);
                    false
                } else {
                    if mr.is_ok() {
                        self.auth.m = m2;
                    }
                    true
                }
            }
        }
    }

    pub fn ev_add_dim(&mut self, name: &str, hierarchy: bool) {
        let n = name.to_string();
        self.edit(
            "add-dimension",
            |s| if hierarchy { s.add_hierarchy(n.clone()) } else { s.add_anarchy(n.clone()) },
            |m| m.add_dimension(name, hierarchy),
        );
    }

    pub fn ev_del_dim(&mut self, name: &str) {
        self.edit("del-dimension", |s| s.del_dimension(name), |m| m.del_dimension(name));
    }

    pub fn ev_add_attr(&mut self, dim: &str, name: &str, hybrid: bool, after: Option<&str>) {
        let mut new_ident = None;
        let ok = self.edit(
            "add-attribute",
            |s| s.add_attribute(qa(dim, name), EncryptionHint::new(hybrid), after),
            |m| m.add_attribute(dim, name, hybrid, after).map(|id| new_ident = Some(id)),
        );
        if !ok {
            return;
        }
        let Some(ident) = new_ident else { return };
        // Read the id the SUT gave to the new attribute back from the serialized structure.
        let Ok(bytes) = self.auth.msk.access_structure.serialize() else { return };
        let Ok(ws) = wire::parse_structure(&bytes) else {
            self.stats.unobservable += 1;
            return;
        };
        let Some(id) = ws.attr_id(dim, name) else {
            self.stats.unobservable += 1;
            return;
        };
        self.stats.check("id-unique");
        // Identity invariant (C03): differs from every id that ever existed along the lineage.
        let clash = self.auth.m.sut_ids.iter().find(|(_, v)| **v == id).map(|(k, _)| *k);
        if let Some(other) = clash {
            let live = self.auth.m.structure.attr_by_ident(other).is_some();
            self.fail(
                Class::IdUnique,
                format!("add-attribute/{}", if live { "id-of-live-attribute" } else { "id-of-deleted-attribute" }),
                format!("{dim}::{name} got id {id}, already used by attribute ident {other}"),
            );
        }
        self.auth.m.sut_ids.insert(ident, id);
        // Hierarchy order and hints as serialized.
        if let (Some(wd), Some(md)) = (ws.dims.iter().find(|d| d.name == dim), self.auth.m.structure.dim(dim)) {
            if md.hierarchy {
                let got: Vec<&str> = wd.attrs.iter().map(|a| a.name.as_str()).collect();
                let exp: Vec<&str> = md.attrs.iter().map(|a| a.name.as_str()).collect();
                if got != exp {
                    // what is observed here is the *serialized* order: a serialization matter
                    self.fail(
                        Class::Reload,
                        "structure/serialized-hierarchy-order-differs",
                        format!("serialized order {:?}, model {:?}", got, exp),
                    );
                }
            }
        }
    }

    pub fn ev_del_attr(&mut self, dim: &str, name: &str) {
        self.edit("del-attribute", |s| s.del_attribute(&qa(dim, name)), |m| m.del_attribute(dim, name));
    }

    pub fn ev_rename_attr(&mut self, dim: &str, name: &str, new: &str) {
        self.edit(
            "rename-attribute",
            |s| s.rename_attribute(&qa(dim, name), new.to_string()),
            |m| m.rename_attribute(dim, name, new),
        );
    }

    pub fn ev_disable_attr(&mut self, dim: &str, name: &str) {
        self.edit("disable-attribute", |s| s.disable_attribute(&qa(dim, name)), |m| m.disable_attribute(dim, name));
    }

    // -----------------------------------------------------------------------------------------
    // Master key operations
    // -----------------------------------------------------------------------------------------

    fn install_mpk(&mut self, mpk: MasterPublicKey, op: &'static str) {
        self.auth.mpk_version += 1;
        let mm = self.auth.m.mpk(self.auth.mpk_version);
        self.check_mpk(&mpk, &mm, op);
        self.auth.mpk = mpk;
        self.auth.mmpk = mm;
    }

    /// Common tail of update / rekey / prune / derive.
    fn master_op(
        &mut self,
        op: &'static str,
        r: Result<Result<MasterPublicKey, cosmian_cover_crypt::Error>, String>,
        model_ok: bool,
        cause: &str,
        before: Option<Vec<u8>>,
        m2: MMsk,
    ) {
        match r {
            Err(p) => {
                self.fail(Class::Panic, format!("{op}/panic"), p);
                self.outcomes.push(format!("{op}:panic"));
            }
            Ok(r) => {
                self.stats.check("ok-err");
                self.outcomes.push(format!("{op}:{}", if r.is_ok() { "ok" } else { "err" }));
                if r.is_ok() != model_ok {
                    self.fail(
                        Class::OkErr,
                        format!("{op}/{}", if model_ok { "expected-ok-got-err".to_string() } else { format!("expected-err-got-ok/{cause}") }),
                        format!("sut: {:?}", r.as_ref().err().map(|e| e.to_string())),
                    );
                }
                match r {
                    Err(_) => {
                        self.check_msk_unchanged(&before, op, if model_ok { "unexpected" } else { cause }, Class::Unchanged);
                    }
                    Ok(mpk) => {
                        if op == "update" {
                            // ids of the attributes that are disabled when the MSK is updated
                            let ids: Vec<u64> = self
                                .auth
                                .m
                                .structure
                                .dims
                                .iter()
                                .flat_map(|d| d.attrs.iter())
                                .filter(|a| a.disabled)
                                .filter_map(|a| self.auth.m.sut_ids.get(&a.ident).copied())
                                .collect();
                            self.disabled_ids.extend(ids);
                        }
                        // Model-independent invariant (C06): no MPK produced after disable+update
                        // publishes a right containing a disabled attribute.
                        self.check_mpk_disabled_ids(&mpk, op);
                        if model_ok {
                            self.auth.m = m2;
                            self.check_msk_shape(op);
                            self.install_mpk(mpk, op);
                            if op == "update" {
                                self.last_update = (self.epoch, self.auth.mpk_version);
                            }
                        }
                    }
                }
            }
        }
    }

    pub fn ev_update(&mut self) {
        let before = self.snap_msk();
        let a = &mut self.auth;
        let r = guard(|| a.cc.update_msk(&mut a.msk));
        let mut m2 = self.auth.m.clone();
        let ok = m2.update().is_ok();
        if !ok {
            self.stats.probe("update-born-disabled");
        }
        self.master_op("update", r, ok, "born-disabled-right", before, m2);
    }

    pub fn parse_policy(&mut self, pol: &PolArg) -> Option<AccessPolicy> {
        if let Pol::Raw(inner) = &pol.ast {
            fn build(p: &Pol) -> AccessPolicy {
                match p {
                    Pol::All => AccessPolicy::Broadcast,
                    Pol::Term(d, a) => AccessPolicy::Term(cosmian_cover_crypt::QualifiedAttribute::new(d, a)),
                    Pol::And(l, r) => AccessPolicy::Conjunction(Box::new(build(l)), Box::new(build(r))),
                    Pol::Or(l, r) => AccessPolicy::Disjunction(Box::new(build(l)), Box::new(build(r))),
                    Pol::Raw(p) => build(p),
                }
            }
            self.stats.probe("policy-built-from-constructors");
            return Some(build(inner));
        }
        match guard(|| AccessPolicy::parse(&pol.text)) {
            Ok(Ok(ap)) => Some(ap),
            _ => {
                self.stats.parse_failures += 1;
                None
            }
        }
    }

    pub fn ev_rekey(&mut self, pol: &PolArg) {
        let Some(ap) = self.parse_policy(pol) else { return };
        let before = self.snap_msk();
        let a = &mut self.auth;
        let r = guard(|| a.cc.rekey(&mut a.msk, &ap));
        let mut m2 = self.auth.m.clone();
        let mr = m2.rekey(&pol.ast);
        let cause = if self.auth.m.structure.usk_rights(&pol.ast).is_err() { "invalid-policy" } else { "right-not-in-msk" };
        if let Ok(t) = &mr {
            if t.len() < self.auth.m.secrets.len() {
                self.stats.probe("rekey-strict-subset");
            }
        } else {
            self.stats.probe("rekey-error");
        }
        self.master_op("rekey", r, mr.is_ok(), cause, before, m2);
    }

    pub fn ev_prune(&mut self, pol: &PolArg) {
        let Some(ap) = self.parse_policy(pol) else { return };
        let before = self.snap_msk();
        let a = &mut self.auth;
        let r = guard(|| a.cc.prune_master_secret_key(&mut a.msk, &ap));
        let mut m2 = self.auth.m.clone();
        let mr = m2.prune(&pol.ast);
        if mr.is_ok() {
            self.stats.probe("prune");
        }
        self.master_op("prune", r, mr.is_ok(), "invalid-policy", before, m2);
    }

    pub fn ev_derive_mpk(&mut self) {
        let a = &mut self.auth;
        let r = guard(|| a.msk.mpk());
        let m2 = self.auth.m.clone();
        self.master_op("derive-mpk", r, true, "", None, m2);
    }
}
