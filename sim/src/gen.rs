//! Swarm configuration and event generation. Every choice is drawn from the run's harness PRNG;
//! arguments are drawn from the *model* state so that most operations are meaningful, with a
//! profile-dependent share of deliberately invalid ones.

use cosmian_crypto_core::bytes_ser_de::Serializable;
use crate::wire;
use crate::events::*;
use crate::model::*;
use crate::rng::Rng;
use crate::world::{SlotKind, World};

pub const DIM_NAMES: &[&str] = &["DPT", "SEC", "Ctr_1", "a.b", "x-y", "Low Secret", "R2", "Z", "ORG", "lvl 2"];
pub const ATTR_NAMES: &[&str] = &["FIN", "HR", "LOW", "TOP", "m_1", "q.r", "u-v", "Top Secret", "A", "b2", "MKG", "DEV", "RD", "k 9"];
pub const LENGTHS: &[usize] = &[0, 1, 11, 12, 13, 15, 16, 17, 31, 32, 33, 127, 128, 255, 256, 4095, 4096, 4097, 16383, 16384, 70001];

#[derive(Clone, Debug)]
pub struct Swarm {
    pub n_users: usize,
    pub n_encryptors: usize,
    pub n_events: usize,
    pub n_dims: usize,
    pub max_attrs: usize,
    pub hybrid_pct: u32,
    pub hierarchy_pct: u32,
    pub invalid_pct: u32,
    pub drop_pct: u32,
    pub dup_pct: u32,
    pub max_delay: u32,
    pub reload_pct: u32,
    /// Weights of the operation kinds (index = Op as usize); 0 = disabled in this run.
    pub w: Vec<u32>,
    pub kinds: Vec<u8>, // enabled encryption kinds: 0 kem, 1 pke, 2 header
    /// Scale knobs (each on in a few percent of runs): attribute ids pushed beyond 127 (two-byte
    /// LEB128 in rights) by add/delete churn before the real structure is built; names of 128+
    /// bytes (two-byte length prefixes).
    pub big_ids: bool,
    pub long_names: bool,
    /// One dimension with 8-10 attributes (other dimensions stay small).
    pub tall: bool,
    /// Policy nesting depth for generated policies.
    pub pol_depth: u32,
    /// Several rekeys of the same policy in a row (long chains).
    pub bursts: bool,
    /// Thousands of rights (two anarchies of 64-72 attributes); no keys or ciphertexts in such runs.
    pub huge: bool,
    /// One policy re-keyed 128-140 times in a row (chain lengths beyond one LEB128 byte).
    /// Attribute names that differ from a sibling's only by surrounding whitespace.
    pub padded_names: bool,
    /// Third dimension named after the first two joined by an underscore.
    pub alias_names: bool,
    pub mega_burst: bool,
    /// One anarchy of 130-300 attributes and encryption policies that are disjunctions of more
    /// than 128 of them (encapsulations with hundreds of components).
    pub broad: bool,
    /// 128-135 further (empty) dimensions: the dimension count needs two bytes.
    pub many_dims: bool,
}

#[derive(Clone, Copy, Debug, PartialEq, Eq)]
#[repr(usize)]
pub enum Op {
    Keygen = 0,
    Publish,
    Deliver,
    Encrypt,
    Read,
    RequestRefresh,
    Rekey,
    Prune,
    AddAttr,
    DelAttr,
    RenameAttr,
    DisableAttr,
    AddDim,
    DelDim,
    Update,
    DeriveMpk,
    Reload,
    Backup,
    Restore,
    Recaps,
    TamperSlot,
    TamperEnc,
    ForgedRefresh,
    Hostile,
    EncryptRepeat,
    ScaleProbe,
    EncryptOtherThread,
    KeygenBurst,
    PqBinding,
    RaiseTracing,
    FreshInstances,
}
pub const N_OPS: usize = 31;

/// Base weights per property profile.
pub fn base_weights(prop: &str) -> Vec<u32> {
    let mut w = vec![0u32; N_OPS];
    let mut set = |ops: &[(Op, u32)]| {
        for (o, x) in ops {
            w[*o as usize] = *x;
        }
    };
    use Op::*;
    let stat: &[(Op, u32)] = &[(Keygen, 3), (Publish, 1), (Deliver, 3), (Encrypt, 6), (Read, 8)];
    let refresh: &[(Op, u32)] = &[(RequestRefresh, 5), (Deliver, 6), (Publish, 3)];
    let edits: &[(Op, u32)] = &[(AddAttr, 3), (DelAttr, 3), (RenameAttr, 2), (AddDim, 1), (DelDim, 1), (Update, 5), (DeriveMpk, 1)];
    match prop {
        "C01" | "C02" => {
            set(stat);
            // crash-restart of any node: the static property must not depend on whether an
            // object is the original or its deserialized copy
            set(&[(Reload, 2)]);
        }
        "C11" => {
            set(stat);
            set(refresh);
            set(&[(Rekey, 4), (Reload, 2), (Recaps, 1), (DisableAttr, 2), (Update, 3), (Prune, 1), (AddAttr, 1), (DelAttr, 1), (PqBinding, 3)]);
        }
        "C03" => {
            set(stat);
            set(refresh);
            set(edits);
            set(&[(Reload, 2)]);
        }
        "C04" => {
            set(stat);
            set(refresh);
            // renames free names and give them to other attributes: a policy names the attribute
            // that holds the name *now*
            set(&[(Rekey, 6), (Reload, 1), (RenameAttr, 2)]);
        }
        "C05" => {
            set(stat);
            set(refresh);
            set(&[(Rekey, 5), (Prune, 4), (DelAttr, 2), (DelDim, 1), (Update, 3), (AddAttr, 2), (AddDim, 1), (Reload, 1)]);
        }
        "C06" => {
            set(stat);
            set(refresh);
            set(&[(Rekey, 4), (Prune, 2), (DisableAttr, 4), (Update, 4), (DeriveMpk, 3), (Reload, 3), (AddAttr, 2), (AddDim, 1), (DelAttr, 1)]);
        }
        "C18" => {
            set(stat);
            set(refresh);
            set(&[(Rekey, 4), (Prune, 3), (DisableAttr, 3), (DelAttr, 2), (Update, 4), (Recaps, 8), (Reload, 1), (AddAttr, 1)]);
        }
        "C09" | "C10" => {
            set(stat);
            set(refresh);
            set(edits);
            set(&[(Rekey, 4), (Prune, 2), (DisableAttr, 3), (Recaps, 2), (Reload, 1), (Backup, 2), (Restore, 2), (ForgedRefresh, 1)]);
        }
        "C13" => {
            set(stat);
            set(refresh);
            set(edits);
            set(&[(Rekey, 4), (Prune, 2), (DisableAttr, 2), (Recaps, 2), (Reload, 10)]);
        }
        "C16" => {
            set(stat);
            set(refresh);
            set(&[(Rekey, 5), (EncryptRepeat, 6), (Reload, 2), (Recaps, 2), (Keygen, 5), (DisableAttr, 2), (Update, 3), (Prune, 1), (EncryptOtherThread, 3), (FreshInstances, 2)]);
        }
        "C17" => {
            set(&[(Keygen, 6), (Publish, 1), (Deliver, 6), (Encrypt, 2), (Read, 2), (RequestRefresh, 6), (Rekey, 2), (Reload, 3), (Backup, 2), (Restore, 2), (ForgedRefresh, 2), (KeygenBurst, 1), (FreshInstances, 2)]);
        }
        "C07" => {
            set(stat);
            set(&[(TamperSlot, 6), (TamperEnc, 8), (Rekey, 1), (RequestRefresh, 1)]);
        }
        "C12" => {
            set(stat);
            // a little rotation, so that the PKE / header layers also meet multi-revision keys
            set(&[(TamperSlot, 6), (TamperEnc, 4), (Rekey, 1), (RequestRefresh, 1)]);
        }
        "C08" => {
            set(stat);
            set(refresh);
            set(&[(Rekey, 4), (ForgedRefresh, 10), (Backup, 1), (Restore, 1), (Reload, 1), (RaiseTracing, 1)]);
        }
        "C14" => {
            set(stat);
            set(refresh);
            set(&[(Rekey, 3), (Hostile, 30), (ScaleProbe, 1)]);
        }
        _ => set(stat),
    }
    w
}

/// Operations a profile must never lose in the swarm (the property's own sub-predicate).
fn essential(prop: &str) -> Vec<Op> {
    use Op::*;
    match prop {
        "C04" => vec![Rekey, RequestRefresh, Deliver, Encrypt, Read],
        "C05" => vec![Rekey, RequestRefresh, Deliver, Encrypt, Read],
        "C06" => vec![DisableAttr, Update, Encrypt],
        "C18" => vec![Recaps, Encrypt],
        "C07" | "C12" => vec![TamperSlot, Encrypt, Read],
        "C08" => vec![ForgedRefresh, Deliver],
        "C14" => vec![Hostile],
        "C13" => vec![Reload],
        "C16" => vec![EncryptRepeat, Keygen],
        "C17" => vec![Keygen, RequestRefresh, Deliver],
        "C03" => vec![Update, Encrypt, Read],
        _ => vec![Encrypt, Read, Keygen],
    }
}

impl Swarm {
    pub fn draw(prop: &str, rng: &mut Rng, thorough: bool) -> Swarm {
        let mut sw = Self::draw_inner(prop, rng, thorough);
        if matches!(prop, "C01" | "C02" | "C07" | "C12" | "C13") && rng.below(70) == 0 {
            sw.broad = true;
            sw.padded_names = false;
            sw.alias_names = false;
            sw.n_dims = 1;
            sw.hierarchy_pct = 0;
            sw.tall = false;
            sw.big_ids = false;
            sw.long_names = false;
            sw.n_users = sw.n_users.min(3);
            sw.n_events = sw.n_events.min(30);
        }
        if matches!(prop, "C05" | "C09" | "C10" | "C13") && rng.below(160) == 0 && !sw.broad {
            // a huge structure: only master-key operations, edits and reloads
            sw.huge = true;
            sw.padded_names = false;
            sw.alias_names = false;
            sw.n_dims = 2;
            sw.hybrid_pct = 0;
            sw.hierarchy_pct = 0;
            sw.tall = false;
            sw.big_ids = false;
            sw.long_names = false;
            sw.n_users = 1;
            sw.n_events = sw.n_events.min(25);
            for op in [Op::Keygen, Op::Encrypt, Op::EncryptRepeat, Op::Read, Op::RequestRefresh, Op::Recaps, Op::ForgedRefresh, Op::TamperSlot, Op::TamperEnc, Op::Hostile] {
                sw.w[op as usize] = 0;
            }
            for op in [Op::Update, Op::DisableAttr, Op::AddAttr, Op::Rekey, Op::Prune] {
                if sw.w[op as usize] == 0 && base_weights(prop)[op as usize] > 0 {
                    sw.w[op as usize] = 2;
                }
            }
        }
        sw
    }

    fn draw_inner(prop: &str, rng: &mut Rng, thorough: bool) -> Swarm {
        let mut w = base_weights(prop);
        let ess = essential(prop);
        for (i, x) in w.iter_mut().enumerate() {
            if *x == 0 {
                continue;
            }
            let is_ess = ess.iter().any(|o| *o as usize == i);
            // swarm: each non-essential operation is off in a third of the runs, and the
            // remaining weights are scaled by 1..3
            if !is_ess && rng.pct(30) {
                *x = 0;
            } else {
                *x *= 1 + rng.below(3) as u32;
            }
        }
        let kinds = match prop {
            "C12" => vec![1, 2, 2],
            "C07" => vec![0, 0, 1, 2],
            "C16" | "C13" | "C14" | "C09" | "C10" => vec![0, 0, 1, 2],
            _ => vec![0],
        };
        let hybrid_pct = *rng.pick(&[0, 0, 30, 60, 100]);
        Swarm {
            n_users: if rng.pct(5) { rng.range(8, 12) } else { rng.range(1, 5) },
            n_encryptors: rng.range(1, 3),
            n_events: if thorough { rng.range(15, 110) } else { rng.range(10, 70) },
            // a few "wide" runs: 4-5 dimensions of at most 2 attributes
            n_dims: *rng.pick(&[1, 2, 2, 2, 3, 3, 2, 3, 2, 3, 2, 3, 2, 3, 2, 3, 2, 3, 4, 5]),
            max_attrs: rng.range(1, 4),
            hybrid_pct: if prop == "C11" { *rng.pick(&[20, 40, 60, 100, 0]) } else { hybrid_pct },
            hierarchy_pct: *rng.pick(&[0, 50, 50, 100]),
            invalid_pct: match prop {
                "C09" => 30,
                "C10" => 50,
                "C06" | "C18" | "C13" | "C03" => 5,
                _ => 0,
            },
            drop_pct: *rng.pick(&[0, 5, 15, 25]),
            dup_pct: *rng.pick(&[0, 5, 15, 25]),
            max_delay: *rng.pick(&[0, 2, 6, 15]),
            reload_pct: 0,
            w,
            kinds,
            big_ids: rng.pct(6),
            long_names: rng.pct(6),
            tall: rng.pct(5),
            pol_depth: *rng.pick(&[2, 2, 2, 2, 3, 3, 4]),
            bursts: rng.pct(8),
            huge: false,
            padded_names: rng.pct(4),
            alias_names: rng.pct(4),
            mega_burst: rng.pct(2),
            broad: false,
            many_dims: matches!(prop, "C13" | "C09" | "C10") && rng.pct(2),
        }
    }
}

// ---------------------------------------------------------------------------------------------
// Policies
// ---------------------------------------------------------------------------------------------

/// Random policy over the structure in which no conjunction names a dimension twice.
fn addressable(a: &MAttr) -> bool {
    a.name == a.name.trim()
}

pub fn gen_pol(rng: &mut Rng, s: &MStruct, depth: u32) -> Pol {
    // attributes whose name has surrounding whitespace cannot be named in a policy string
    // (the parser trims names): they only exist through the structure-editing API
    let dims: Vec<usize> = (0..s.dims.len()).filter(|i| s.dims[*i].attrs.iter().any(addressable)).collect();
    if dims.is_empty() || rng.pct(4) {
        return Pol::All;
    }
    gen_pol_dims(rng, s, &dims, depth)
}

fn gen_pol_dims(rng: &mut Rng, s: &MStruct, dims: &[usize], depth: u32) -> Pol {
    let term = |rng: &mut Rng| {
        let d = &s.dims[*rng.pick(dims)];
        let ok: Vec<&MAttr> = d.attrs.iter().filter(|a| addressable(a)).collect();
        let a = *rng.pick(&ok);
        Pol::Term(d.name.clone(), a.name.clone())
    };
    if depth == 0 || rng.pct(35) {
        return term(rng);
    }
    if dims.len() >= 2 && rng.pct(50) {
        // AND of two sub-policies over disjoint dimension sets
        let mut ds = dims.to_vec();
        rng.shuffle(&mut ds);
        let k = rng.range(1, ds.len() - 1);
        let l = gen_pol_dims(rng, s, &ds[..k], depth - 1);
        let r = gen_pol_dims(rng, s, &ds[k..], depth - 1);
        Pol::And(Box::new(l), Box::new(r))
    } else {
        let l = gen_pol_dims(rng, s, dims, depth - 1);
        let r = if rng.pct(3) { Pol::All } else { gen_pol_dims(rng, s, dims, depth - 1) };
        Pol::Or(Box::new(l), Box::new(r))
    }
}

/// Policy naming exactly the attributes of a right (a conjunction), `*` for the empty right.
pub fn pol_of_right(s: &MStruct, r: &MRight) -> Option<Pol> {
    let mut p: Option<Pol> = None;
    for id in r {
        let (d, a) = s.attr_by_ident(*id)?;
        if !addressable(a) {
            return None;
        }
        let t = Pol::Term(d.name.clone(), a.name.clone());
        p = Some(match p {
            None => t,
            Some(q) => Pol::And(Box::new(q), Box::new(t)),
        });
    }
    Some(p.unwrap_or(Pol::All))
}

fn invalid_pol(rng: &mut Rng, s: &MStruct, for_encryption: bool) -> Pol {
    let valid = gen_pol(rng, s, 1);
    match rng.below(if for_encryption { 4 } else { 3 }) {
        0 => Pol::And(Box::new(valid), Box::new(Pol::term("NoSuchDim", "x"))),
        1 => {
            if let Some(d) = s.dims.first() {
                Pol::Or(Box::new(Pol::Term(d.name.clone(), "no_such_attr".into())), Box::new(valid))
            } else {
                Pol::term("NoSuchDim", "x")
            }
        }
        2 => Pol::term("NoSuchDim", "y"),
        _ => {
            // two different attributes of one dimension in one conjunction (encryption only)
            for d in &s.dims {
                if d.attrs.len() >= 2 {
                    return Pol::And(
                        Box::new(Pol::Term(d.name.clone(), d.attrs[0].name.clone())),
                        Box::new(Pol::Term(d.name.clone(), d.attrs[1].name.clone())),
                    );
                }
            }
            Pol::term("NoSuchDim", "z")
        }
    }
}

fn arg(rng: &mut Rng, p: Pol) -> PolArg {
    let style = rng.next_u64();
    if (style >> 40) % 12 == 0 && !matches!(p, Pol::Raw(_)) {
        // one policy in twelve is handed over as a value built with the public constructors
        return PolArg::new(Pol::Raw(Box::new(p)), style);
    }
    PolArg::new(p, style)
}

// ---------------------------------------------------------------------------------------------
// Prelude and steps
// ---------------------------------------------------------------------------------------------

pub struct Gen {
    pub prop: String,
    pub sw: Swarm,
    pub name_ctr: u32,
    pub thorough: bool,
    /// Events queued by a burst (returned before anything new is drawn).
    pub pending: Vec<Ev>,
    /// After a burst of re-keyings in the C08 profile: (user, stage) of a scripted sequence that
    /// refreshes that user's key keeping old secrets, then tampers with the oldest secrets of
    /// its longest chain.
    pub tail_forge: Option<(usize, u8)>,
}

impl Gen {
    pub fn new(prop: &str, sw: Swarm) -> Self {
        Self {
            prop: prop.to_string(),
            sw,
            name_ctr: 0,
            thorough: false,
            pending: vec![],
            tail_forge: None,
        }
    }

    fn fresh_attr_name(&mut self, rng: &mut Rng, d: &MDim) -> String {
        if self.sw.padded_names && !d.attrs.is_empty() && rng.pct(40) {
            // the name of a sibling with surrounding whitespace: a different name for the
            // structure-editing API (which does not trim)
            let base = rng.pick(&d.attrs).name.trim().to_string();
            let n = match rng.below(3) {
                0 => format!("{base} "),
                1 => format!(" {base}"),
                _ => format!("  {base}  "),
            };
            if !d.attrs.iter().any(|a| a.name == n) {
                return n;
            }
        }
        if self.sw.long_names && rng.pct(50) {
            self.name_ctr += 1;
            // mostly just above the one-byte length prefix, now and then above 64 KiB
            let pad = if rng.pct(6) { rng.range(65_530, 70_000) } else { rng.range(128, 200) };
            return format!("long{}_{}", self.name_ctr, "x".repeat(pad));
        }
        for _ in 0..4 {
            let n = rng.pick(ATTR_NAMES).to_string();
            if !d.attrs.iter().any(|a| a.name == n) {
                return n;
            }
        }
        self.name_ctr += 1;
        format!("n{}", self.name_ctr)
    }

    /// Events that build the initial structure, publish and hand out first keys.
    pub fn prelude(&mut self, rng: &mut Rng) -> Vec<Ev> {
        let mut evs = vec![];
        let mut s = MStruct::default();
        let mut names: Vec<&str> = DIM_NAMES.to_vec();
        rng.shuffle(&mut names);
        // the name of the third dimension is the two first ones joined (in lexical order)
        let alias = format!("{}_{}", names[0].min(names[1]), names[0].max(names[1]));
        for di in 0..self.sw.n_dims {
            let hierarchy = rng.pct(self.sw.hierarchy_pct);
            let dname = if di == 2 && self.sw.alias_names { alias.clone() } else { names[di].to_string() };
            evs.push(Ev::AddDim { name: dname.clone(), hierarchy });
            if di == 0 && self.sw.big_ids {
                // churn: push the attribute-id counter past an encoding boundary
                // (one-byte LEB128, two-byte LEB128, 16 bits)
                let n = match rng.below(10) {
                    0 => rng.range(65_530, 65_545),
                    1 | 2 => rng.range(16_380, 16_390),
                    _ => rng.range(125, 135),
                };
                evs.push(Ev::ChurnIds { dim: dname.clone(), n });
            }
            if di >= 1 && di + 1 == self.sw.n_dims && self.sw.big_ids && rng.pct(35) {
                // an old authority: the id counter is at a 32- or 31-bit boundary, or far beyond
                let ev = match rng.below(10) {
                    0 => Ev::IdCounterJump { to: (1u64 << 31) - 1 + rng.below(3) as u64, back: None },
                    1 => Ev::IdCounterJump { to: 1u64 << 40, back: None },
                    2 => Ev::IdCounterJump { to: (1u64 << 63) + rng.below(3) as u64, back: None },
                    3 => Ev::IdCounterJump { to: (1u64 << 32) - 1 + rng.below(3) as u64, back: None },
                    // the next identifiers are congruent (mod 2^32, 2^31, 2^16, 2^48) to live ones
                    4 => Ev::IdCounterJump { to: 1u64 << *rng.pick(&[16u32, 31, 48]), back: Some(rng.range(1, 3) as u8) },
                    _ => Ev::IdCounterJump { to: 1u64 << 32, back: Some(rng.range(1, 3) as u8) },
                };
                evs.push(ev);
            }
            let mut d = MDim { name: dname.clone(), hierarchy, attrs: vec![] };
            let cap = if self.sw.n_dims >= 4 { self.sw.max_attrs.min(2) } else { self.sw.max_attrs };
            let n_attrs = if self.sw.broad {
                *rng.pick(&[130usize, 200, 257, 258, 300, 200, 257, 1030, 300, 2060])
            } else if self.sw.huge {
                // (the second configuration's curve is several times slower: about 1 200 rights
                // there, 5 000 in the default one)
                if crate::wire::FEATURES.starts_with("p-256") { rng.range(32, 36) } else { rng.range(64, 72) }
            } else if di == 0 && self.sw.tall && self.sw.n_dims <= 2 {
                rng.range(8, 10)
            } else if rng.pct(5) {
                0
            } else {
                rng.range(1, cap)
            };
            for _ in 0..n_attrs {
                let an = self.fresh_attr_name(rng, &d);
                let hybrid = rng.pct(self.sw.hybrid_pct);
                let after = if hierarchy && !d.attrs.is_empty() && rng.pct(70) {
                    Some(rng.pick(&d.attrs).name.clone())
                } else {
                    None
                };
                evs.push(Ev::AddAttr { dim: dname.clone(), name: an.clone(), hybrid, after });
                d.attrs.push(MAttr { ident: 0, name: an, hybrid, disabled: false });
            }
            s.dims.push(d);
        }
        // The structure handed to the first update may itself be the result of an edit history
        // (additions in the middle of a hierarchy, deletions, renames): "all access structures".
        if rng.pct(45) {
            for di in 0..s.dims.len() {
                if !rng.pct(60) {
                    continue;
                }
                let dname = s.dims[di].name.clone();
                let hierarchy = s.dims[di].hierarchy;
                for _ in 0..rng.range(0, 2) {
                    if s.dims[di].attrs.len() >= 5 {
                        break;
                    }
                    let an = self.fresh_attr_name(rng, &s.dims[di]);
                    let hybrid = rng.pct(self.sw.hybrid_pct);
                    let after = if hierarchy && !s.dims[di].attrs.is_empty() && rng.pct(75) {
                        Some(rng.pick(&s.dims[di].attrs).name.clone())
                    } else {
                        None
                    };
                    evs.push(Ev::AddAttr { dim: dname.clone(), name: an.clone(), hybrid, after: after.clone() });
                    let attr = MAttr { ident: 0, name: an, hybrid, disabled: false };
                    match (hierarchy, after) {
                        (true, Some(a)) => {
                            let pos = s.dims[di].attrs.iter().position(|x| x.name == a).unwrap();
                            s.dims[di].attrs.insert(pos + 1, attr);
                        }
                        (true, None) => s.dims[di].attrs.insert(0, attr),
                        _ => s.dims[di].attrs.push(attr),
                    }
                }
                if s.dims[di].attrs.len() >= 2 && rng.pct(70) {
                    // bias towards the lowest attributes of a hierarchy
                    let k = if rng.pct(50) { 0 } else { rng.below(s.dims[di].attrs.len()) };
                    let a = s.dims[di].attrs.remove(k);
                    evs.push(Ev::DelAttr { dim: dname.clone(), name: a.name });
                }
                if !s.dims[di].attrs.is_empty() && rng.pct(30) {
                    let k = rng.below(s.dims[di].attrs.len());
                    let new = self.fresh_attr_name(rng, &s.dims[di]);
                    let old = std::mem::replace(&mut s.dims[di].attrs[k].name, new.clone());
                    evs.push(Ev::RenameAttr { dim: dname.clone(), name: old, new });
                }
            }
        }
        if self.sw.many_dims {
            // empty dimensions do not multiply rights
            for k in 0..rng.range(126, 135) {
                evs.push(Ev::AddDim { name: format!("e{k}"), hierarchy: rng.pct(50) });
            }
        }
        evs.push(Ev::Update);
        evs.push(Ev::Publish { to: (0..self.sw.n_encryptors).map(|e| (e, 0, false)).collect() });
        for _ in 0..self.sw.n_encryptors {
            evs.push(Ev::Deliver { reply_delay: 0, reply_dup: false, reply_drop: false });
        }
        evs
    }

    pub fn try_keygen(&mut self, rng: &mut Rng, w: &World, user: usize) -> Ev {
        Ev::Keygen { user, pol: self.keygen_pol(rng, w) }
    }

    /// Size of the largest user key (rights x longest chain): proxy for the cost of one decaps.
    fn key_weight(&self, w: &World) -> usize {
        w.users
            .iter()
            .filter_map(|u| u.usk.as_ref())
            .map(|(_, m)| m.rights.len() * m.rights.values().map(|c| c.len()).max().unwrap_or(1))
            .max()
            .unwrap_or(1)
    }

    fn user_with_key(&self, rng: &mut Rng, w: &World) -> Option<usize> {
        let us: Vec<usize> = (0..w.users.len()).filter(|u| w.users[*u].usk.is_some()).collect();
        rng.pick_opt(&us).copied()
    }

    fn keygen_pol(&mut self, rng: &mut Rng, w: &World) -> PolArg {
        let s = &w.auth.m.structure;
        if self.sw.broad {
            // keys of a few attributes of the big dimension (a `*` key would hold hundreds of rights)
            if let Some(d) = s.dims.iter().find(|d| !d.attrs.is_empty()) {
                let mut p = Pol::Term(d.name.clone(), rng.pick(&d.attrs).name.clone());
                for _ in 0..rng.below(3) {
                    p = Pol::Or(Box::new(p), Box::new(Pol::Term(d.name.clone(), rng.pick(&d.attrs).name.clone())));
                }
                return arg(rng, p);
            }
        }
        if rng.pct(self.sw.invalid_pct) {
            { let p = invalid_pol(rng, s, false); return arg(rng, p); }
        }
        if rng.pct(35) {
            if let Some(p) = self.alias_pol(rng, s) {
                return arg(rng, p);
            }
        }
        let p = gen_pol(rng, s, self.sw.pol_depth);
        arg(rng, p)
    }

    fn enc_pol(&mut self, rng: &mut Rng, w: &World, e: usize) -> PolArg {
        let s = match &w.encryptors[e].mpk {
            Some((_, mm)) => &mm.structure,
            None => &w.auth.m.structure,
        };
        if rng.pct(self.sw.invalid_pct) {
            { let p = invalid_pol(rng, s, true); return arg(rng, p); }
        }
        if self.sw.broad && rng.pct(50) {
            // a disjunction of k attributes of the big anarchy, k around the byte boundaries
            if let Some(d) = s.dims.iter().find(|d| d.attrs.len() >= 129) {
                let mut k = (*rng.pick(&[127usize, 128, 129, 160, 255, 256, 257, 258, 1024, 1025, 1030, 2049, 2060])).min(d.attrs.len());
                if d.attrs.len() > 1024 && rng.pct(70) {
                    // the widest encapsulation this structure allows
                    k = d.attrs.len();
                }
                let mut idx: Vec<usize> = (0..d.attrs.len()).collect();
                rng.shuffle(&mut idx);
                // balanced tree (a 257-deep chain exceeds the JSON recursion limit of replay files)
                fn build(d: &MDim, idx: &[usize]) -> Pol {
                    if idx.len() == 1 {
                        Pol::Term(d.name.clone(), d.attrs[idx[0]].name.clone())
                    } else {
                        let (l, r) = idx.split_at(idx.len() / 2);
                        Pol::Or(Box::new(build(d, l)), Box::new(build(d, r)))
                    }
                }
                return PolArg::new(build(d, &idx[..k]), 0);
            }
        }
        // Bias towards rights some user holds or nearly holds.
        if rng.pct(40) {
            if let Some(u) = self.user_with_key(rng, w) {
                let mu = &w.users[u].usk.as_ref().unwrap().1;
                let rights: Vec<&MRight> = mu.rights.keys().collect();
                if let Some(r) = rng.pick_opt(&rights) {
                    if let Some(p) = pol_of_right(s, r) {
                        if rng.pct(30) {
                            let q = gen_pol(rng, s, 1);
                            return arg(rng, Pol::Or(Box::new(p), Box::new(q)));
                        }
                        return arg(rng, p);
                    }
                }
            }
        }
        let p = gen_pol(rng, s, 2);
        arg(rng, p)
    }

    /// `(X::a && Y::b) || X_Y::c` when the structure has dimensions X, Y and X_Y.
    fn alias_pol(&self, rng: &mut Rng, s: &MStruct) -> Option<Pol> {
        if !self.sw.alias_names || s.dims.len() < 3 {
            return None;
        }
        let pick = |rng: &mut Rng, d: &MDim| -> Option<Pol> {
            let ok: Vec<&MAttr> = d.attrs.iter().filter(|a| addressable(a)).collect();
            rng.pick_opt(&ok).map(|a| Pol::Term(d.name.clone(), a.name.clone()))
        };
        let (a, b, c) = (pick(rng, &s.dims[0])?, pick(rng, &s.dims[1])?, pick(rng, &s.dims[2])?);
        Some(Pol::Or(Box::new(Pol::And(Box::new(a), Box::new(b))), Box::new(c)))
    }

    fn rotation_pol(&mut self, rng: &mut Rng, w: &World) -> PolArg {
        let s = &w.auth.m.structure;
        if rng.pct(35) {
            if let Some(p) = self.alias_pol(rng, s) {
                return arg(rng, p);
            }
        }
        if rng.pct(self.sw.invalid_pct) {
            { let p = invalid_pol(rng, s, false); return arg(rng, p); }
        }
        match rng.below(10) {
            0 => arg(rng, Pol::All),
            1..=5 => {
                // the conjunction naming one right held by some user: rotates a strict subset
                // of that user's rights
                if let Some(u) = self.user_with_key(rng, w) {
                    let mu = &w.users[u].usk.as_ref().unwrap().1;
                    let rights: Vec<&MRight> = mu.rights.keys().collect();
                    if let Some(r) = rng.pick_opt(&rights) {
                        if let Some(p) = pol_of_right(s, r) {
                            return arg(rng, p);
                        }
                    }
                }
                let p = gen_pol(rng, s, 1);
                arg(rng, p)
            }
            6 | 7 => {
                // a single attribute
                let attrs: Vec<(String, String)> = s.all_attrs().into_iter().filter(|(_, a)| a == a.trim()).collect();
                match rng.pick_opt(&attrs) {
                    Some((d, a)) => arg(rng, Pol::Term(d.clone(), a.clone())),
                    None => arg(rng, Pol::All),
                }
            }
            _ => {
                let p = gen_pol(rng, s, 2);
                arg(rng, p)
            }
        }
    }

    fn delay(&self, rng: &mut Rng) -> u32 {
        if self.sw.max_delay == 0 {
            0
        } else {
            rng.below(self.sw.max_delay as usize + 1) as u32
        }
    }

    fn enc_kind(&self, rng: &mut Rng) -> EncKind {
        match *rng.pick(&self.sw.kinds) {
            0 => EncKind::Kem,
            1 => EncKind::Pke { len: if rng.pct(if self.prop == "C16" { 8 } else { 2 }) { rng.range(1_048_577, 1_200_000) } else { *rng.pick(LENGTHS) } },
            _ => EncKind::Header {
                meta: match rng.below(4) {
                    0 => None,
                    1 => Some(0),
                    _ => Some(*rng.pick(LENGTHS)),
                },
                aad: match rng.below(4) {
                    0 => None,
                    1 => Some(0),
                    _ => Some(*rng.pick(&[1usize, 12, 16, 33, 256])),
                },
            },
        }
    }

    /// Draws the next event. Always returns something applicable (falls back to Deliver).
    pub fn step(&mut self, rng: &mut Rng, w: &World) -> Ev {
        if let Some(ev) = self.pending.pop() {
            return ev;
        }
        if let Some((u, stage)) = self.tail_forge {
            self.tail_forge = if stage >= 14 { None } else { Some((u, stage + 1)) };
            let deliver = Ev::Deliver { reply_delay: 0, reply_dup: false, reply_drop: false };
            return match stage {
                0 => Ev::RequestRefresh { user: u, keep: true, delay: 0, dup: false, tamper: None },
                1..=3 => deliver,
                s if s % 2 == 0 => {
                    // the longest chain of the key as the user holds it now
                    let i = w.users.get(u).and_then(|x| x.usk.as_ref()).and_then(|(k, _)| k.serialize().ok()).and_then(|b| {
                        let p = wire::parse_usk(&b).ok()?;
                        (0..p.rights.len()).max_by_key(|i| p.rights[*i].secrets.len())
                    });
                    let i = i.unwrap_or(0);
                    let k = 50_000 + rng.below(3);
                    let op = match rng.below(5) {
                        0 => UskOp::DropSecret { i, k },
                        1 => UskOp::DupSecret { i, k },
                        2 => UskOp::SwapSecrets { i, k: 50_001 + rng.below(3) },
                        3 => UskOp::SwapSecretsAcross { i, k, j: i, l: Self::chain_k_static(rng) },
                        _ => UskOp::SplitChain { i, k },
                    };
                    Ev::RequestRefresh { user: u, keep: rng.pct(50), delay: 0, dup: false, tamper: Some(op) }
                }
                _ => deliver,
            };
        }
        for _ in 0..8 {
            let op = rng.weighted(&self.sw.w);
            if let Some(ev) = self.try_op(op, rng, w) {
                return ev;
            }
        }
        Ev::Deliver { reply_delay: 0, reply_dup: false, reply_drop: false }
    }

    fn try_op(&mut self, op: usize, rng: &mut Rng, w: &World) -> Option<Ev> {
        let s = &w.auth.m.structure;
        let inv = rng.pct(self.sw.invalid_pct);
        Some(match op {
            x if x == Op::Keygen as usize => {
                // prefer users without a key
                let without: Vec<usize> = (0..w.users.len()).filter(|u| w.users[*u].usk.is_none()).collect();
                let user = if !without.is_empty() && rng.pct(80) { *rng.pick(&without) } else { rng.below(w.users.len()) };
                Ev::Keygen { user, pol: self.keygen_pol(rng, w) }
            }
            x if x == Op::Publish as usize => {
                let mut to = vec![];
                for e in 0..w.encryptors.len() {
                    if rng.pct(self.sw.drop_pct) {
                        continue;
                    }
                    to.push((e, self.delay(rng), rng.pct(self.sw.dup_pct)));
                }
                Ev::Publish { to }
            }
            x if x == Op::Deliver as usize => {
                if w.net.is_empty() {
                    return None;
                }
                Ev::Deliver { reply_delay: self.delay(rng), reply_dup: rng.pct(self.sw.dup_pct), reply_drop: rng.pct(self.sw.drop_pct) }
            }
            x if x == Op::Encrypt as usize || x == Op::EncryptRepeat as usize => {
                let es: Vec<usize> = (0..w.encryptors.len()).filter(|e| w.encryptors[*e].mpk.is_some()).collect();
                let e = *rng.pick_opt(&es)?;
                let repeat = if x == Op::EncryptRepeat as usize { rng.range(2, 30) as u32 } else { 1 };
                Ev::Encrypt { enc: e, pol: self.enc_pol(rng, w, e), kind: self.enc_kind(rng), repeat }
            }
            x if x == Op::Read as usize => {
                if w.slots.is_empty() {
                    return None;
                }
                let user = self.user_with_key(rng, w)?;
                // bias to recent slots
                let slot = if rng.pct(50) { w.slots.len() - 1 - rng.below(w.slots.len().min(3)) } else { rng.below(w.slots.len()) };
                Ev::Read { user, slot }
            }
            x if x == Op::RequestRefresh as usize => {
                let user = self.user_with_key(rng, w)?;
                Ev::RequestRefresh { user, keep: rng.pct(55), delay: self.delay(rng), dup: rng.pct(self.sw.dup_pct), tamper: None }
            }
            x if x == Op::ForgedRefresh as usize => {
                let user = self.user_with_key(rng, w)?;
                let op = self.usk_op(rng, w, user);
                Ev::RequestRefresh { user, keep: rng.pct(50), delay: 0, dup: false, tamper: Some(op) }
            }
            x if x == Op::Rekey as usize => {
                let mut ev = Ev::Rekey { pol: self.rotation_pol(rng, w) };
                if self.sw.mega_burst {
                    self.sw.mega_burst = false;
                    // a narrow policy (one attribute of every dimension) keeps the number of
                    // rotated rights, hence the size of the keys, small
                    let mut p: Option<Pol> = None;
                    for d in &s.dims {
                        let ok: Vec<&MAttr> = d.attrs.iter().filter(|a| addressable(a)).collect();
                        if let Some(a) = rng.pick_opt(&ok) {
                            let t = Pol::Term(d.name.clone(), a.name.clone());
                            p = Some(match p {
                                None => t,
                                Some(q) => Pol::And(Box::new(q), Box::new(t)),
                            });
                        }
                    }
                    if let Some(p) = p {
                        ev = Ev::Rekey { pol: arg(rng, p) };
                    }
                    // past the one-byte count (128), past 256, and - where re-encapsulation or
                    // key tampering is the subject - past 512
                    let n = match rng.below(10) {
                        0 if matches!(self.prop.as_str(), "C18" | "C04") && rng.pct(50) => rng.range(2049, 2060),
                        0 if matches!(self.prop.as_str(), "C18" | "C08" | "C04") => rng.range(515, 525),
                        0 | 1 | 2 => rng.range(257, 270),
                        3 | 4 | 5 if self.prop == "C08" => rng.range(257, 262),
                        _ => rng.range(128, 140),
                    };
                    for _ in 0..n {
                        self.pending.push(ev.clone());
                    }
                    if self.prop == "C08" && !w.users.is_empty() {
                        // a key holding every right about to be rotated, then (once the burst is
                        // over) a refresh that keeps its old secrets and tampering of the tail
                        if let Ev::Rekey { pol } = &ev {
                            let u = rng.below(w.users.len());
                            self.tail_forge = Some((u, 0));
                            return Some(Ev::Keygen { user: u, pol: pol.clone() });
                        }
                    }
                } else if self.sw.bursts && rng.pct(30) {
                    // the same policy re-keyed several times in a row: long chains; now and then
                    // beyond 127 revisions (two-byte chain length)
                    let n = rng.range(3, 9);
                    for _ in 0..n {
                        self.pending.push(ev.clone());
                    }
                }
                ev
            }
            x if x == Op::Prune as usize => Ev::Prune { pol: self.rotation_pol(rng, w) },
            x if x == Op::AddAttr as usize => {
                if inv {
                    return Some(match rng.below(3) {
                        0 => Ev::AddAttr { dim: "NoSuchDim".into(), name: "x".into(), hybrid: false, after: None },
                        1 => {
                            let d = rng.pick_opt(&s.dims)?;
                            let a = rng.pick_opt(&d.attrs)?;
                            Ev::AddAttr { dim: d.name.clone(), name: a.name.clone(), hybrid: false, after: None }
                        }
                        _ => {
                            let d = rng.pick_opt(&s.dims)?;
                            let name = self.fresh_attr_name(rng, d);
                            Ev::AddAttr { dim: d.name.clone(), name, hybrid: false, after: Some("no_such_after".into()) }
                        }
                    });
                }
                if s.n_attrs() >= 9 {
                    return None;
                }
                let d = rng.pick_opt(&s.dims)?;
                if d.attrs.len() >= 4 {
                    return None;
                }
                let name = self.fresh_attr_name(rng, d);
                let after = if !d.attrs.is_empty() && rng.pct(60) { Some(rng.pick(&d.attrs).name.clone()) } else { None };
                Ev::AddAttr { dim: d.name.clone(), name, hybrid: rng.pct(self.sw.hybrid_pct), after }
            }
            x if x == Op::DelAttr as usize => {
                if inv {
                    if rng.pct(30) {
                        return Some(Ev::DelAttr { dim: "NoSuchDim".into(), name: "x".into() });
                    }
                    let d = rng.pick_opt(&s.dims)?;
                    return Some(Ev::DelAttr { dim: d.name.clone(), name: "no_such_attr".into() });
                }
                let attrs = s.all_attrs();
                let (d, a) = rng.pick_opt(&attrs)?.clone();
                Ev::DelAttr { dim: d, name: a }
            }
            x if x == Op::RenameAttr as usize => {
                let attrs = s.all_attrs();
                let (d, a) = rng.pick_opt(&attrs)?.clone();
                if inv {
                    return Some(match rng.below(3) {
                        0 => Ev::RenameAttr { dim: "NoSuchDim".into(), name: a, new: "x".into() },
                        1 => Ev::RenameAttr { dim: d, name: "no_such_attr".into(), new: "fresh_name".into() },
                        _ => {
                            // onto an existing name of the same dimension (possibly itself)
                            let dim = s.dim(&d)?;
                            let other = rng.pick(&dim.attrs).name.clone();
                            Ev::RenameAttr { dim: d, name: a, new: other }
                        }
                    });
                }
                let dim = s.dim(&d)?;
                let new = self.fresh_attr_name(rng, dim);
                Ev::RenameAttr { dim: d, name: a, new }
            }
            x if x == Op::DisableAttr as usize => {
                if inv {
                    if rng.pct(50) {
                        let d = rng.pick_opt(&s.dims)?;
                        return Some(Ev::DisableAttr { dim: d.name.clone(), name: "no_such_attr".into() });
                    }
                    return Some(Ev::DisableAttr { dim: "NoSuchDim".into(), name: "x".into() });
                }
                let attrs = s.all_attrs();
                let (d, a) = rng.pick_opt(&attrs)?.clone();
                Ev::DisableAttr { dim: d, name: a }
            }
            x if x == Op::AddDim as usize => {
                if inv {
                    let d = rng.pick_opt(&s.dims)?;
                    return Some(Ev::AddDim { name: d.name.clone(), hierarchy: rng.pct(50) });
                }
                if s.dims.len() >= 3 {
                    return None;
                }
                let free: Vec<&&str> = DIM_NAMES.iter().filter(|n| s.dim(n).is_none()).collect();
                let name = rng.pick_opt(&free)?.to_string();
                Ev::AddDim { name, hierarchy: rng.pct(50) }
            }
            x if x == Op::DelDim as usize => {
                if inv {
                    return Some(Ev::DelDim { name: "NoSuchDim".into() });
                }
                let d = rng.pick_opt(&s.dims)?;
                Ev::DelDim { name: d.name.clone() }
            }
            x if x == Op::Update as usize => Ev::Update,
            x if x == Op::DeriveMpk as usize => Ev::DeriveMpk,
            x if x == Op::Reload as usize => {
                let what = match rng.below(8) {
                    0 | 1 => ReloadTarget::Msk,
                    2 => ReloadTarget::AuthorityMpk,
                    3 => ReloadTarget::EncryptorMpk(rng.below(w.encryptors.len())),
                    4 => ReloadTarget::Usk(rng.below(w.users.len())),
                    5 => {
                        if w.slots.is_empty() {
                            return None;
                        }
                        ReloadTarget::Slot(rng.below(w.slots.len()))
                    }
                    6 => {
                        let hs: Vec<usize> = (0..w.slots.len()).filter(|i| w.slots[*i].kind == SlotKind::Header).collect();
                        ReloadTarget::Cleartext(*rng.pick_opt(&hs)?)
                    }
                    _ => ReloadTarget::Structure,
                };
                Ev::Reload { what }
            }
            x if x == Op::Backup as usize => Ev::Backup,
            x if x == Op::Restore as usize => {
                if w.auth.backups.is_empty() {
                    return None;
                }
                Ev::Restore { idx: rng.below(w.auth.backups.len()) }
            }
            x if x == Op::Recaps as usize => {
                let ks: Vec<usize> = (0..w.slots.len()).filter(|i| w.slots[*i].kind == SlotKind::Kem && w.slots[*i].bytes == w.slots[*i].orig).collect();
                let slot = *rng.pick_opt(&ks)?;
                // cost model: the master key tries every secret it holds on every component
                let secrets: usize = w.auth.m.secrets.values().map(|c| c.revs.len()).sum();
                let units = secrets * w.slots[slot].m.targets.len().max(1);
                if units > 20_000 || (units > 6_000 && !rng.pct(20)) {
                    return None;
                }
                let stale_from = if rng.pct(15) { Some(rng.below(w.encryptors.len())) } else { None };
                Ev::Recaps { slot, stale_from }
            }
            x if x == Op::TamperSlot as usize => {
                if w.slots.is_empty() {
                    return None;
                }
                let slot = rng.below(w.slots.len());
                let len = w.slots[slot].bytes.len().max(1);
                // long objects: the last few hundred bytes (the last components of a wide
                // encapsulation) are hit as often as everything before them
                let mut at = |rng: &mut Rng| if len > 4000 && rng.pct(35) { len - 1 - rng.below(600) } else { rng.below(len) };
                let op = match rng.below(14) {
                    12 | 13 => ByteOp::XorPair { pos: at(rng), dist: *rng.pick(&[1usize, 2, 4, 8, 8, 16, 32]), delta: 1 << rng.below(8) },
                    10 => ByteOp::AadVariant { mode: 0 },
                    11 => ByteOp::AadVariant { mode: 1 + rng.below(200) as u8 },
                    0..=3 => ByteOp::FlipBit { pos: at(rng), bit: rng.below(8) as u8 },
                    4 => ByteOp::SetByte { pos: at(rng), val: rng.below(256) as u8 },
                    5 | 6 => ByteOp::Truncate { len: rng.below(len) },
                    7 => ByteOp::Extend { bytes: { let n = rng.range(1, 40); rng.bytes(n) } },
                    8 => ByteOp::Torn { cut: rng.below(len), other_slot: rng.below(w.slots.len()) },
                    _ => ByteOp::Misdirect { other_slot: rng.below(w.slots.len()) },
                };
                Ev::TamperSlot { slot, op }
            }
            x if x == Op::TamperEnc as usize => {
                if w.slots.is_empty() {
                    return None;
                }
                let slot = rng.below(w.slots.len());
                let n = w.slots[slot].m.targets.len().max(1);
                let other = rng.below(w.slots.len());
                // long encapsulations: the last components are targeted as often as all others
                let mut idx = |rng: &mut Rng| if n > 8 && rng.pct(40) { n - 1 - rng.below(3) } else { rng.below(n) };
                let len = w.slots[slot].bytes.len().max(1);
                let op = match rng.below(14) {
                    0 => EncOp::SwapEncs { i: idx(rng), j: idx(rng) },
                    1 => EncOp::DropEnc { i: idx(rng) },
                    2 => EncOp::DupEnc { i: idx(rng) },
                    3 => EncOp::SwapTraps,
                    4 => EncOp::DropTrap { i: rng.below(2) },
                    5 => EncOp::DupTrap { i: rng.below(2) },
                    6 => EncOp::TagFrom { other_slot: other },
                    7 => EncOp::EncFrom { other_slot: other, i: rng.below(n), j: rng.below(4) },
                    8 => EncOp::TrapsFrom { other_slot: other },
                    9 => EncOp::FlipFlavour,
                    10 => EncOp::RewriteCount { val: *rng.pick(&[0u64, 1, 2, 3, 5]) },
                    11 => EncOp::SwapSeedsOnly { i: rng.below(n), j: rng.below(n) },
                    12 => EncOp::MetaFrom { other_slot: other },
                    _ => EncOp::FlipPayloadBit { pos: if len > 5000 && rng.pct(40) { len - 1 - rng.below(300) } else { rng.below(5000) }, bit: rng.below(8) as u8 },
                };
                Ev::TamperEnc { slot, op }
            }
            x if x == Op::Hostile as usize => self.hostile(rng, w),
            x if x == Op::RaiseTracing as usize => {
                if w.auth.m.tl >= 2 {
                    return None;
                }
                Ev::RaiseTracing
            }
            x if x == Op::KeygenBurst as usize => {
                // rare: more than 255 identifiers registered in the master key
                if !rng.pct(6) {
                    return None;
                }
                Ev::KeygenBurst { user: rng.below(w.users.len()), pol: self.keygen_pol(rng, w), n: rng.range(256, 300) }
            }
            x if x == Op::PqBinding as usize => {
                let user = self.user_with_key(rng, w)?;
                let mu = &w.users[user].usk.as_ref().unwrap().1;
                let cands: Vec<usize> = (0..w.slots.len()).filter(|i| w.slots[*i].kind == SlotKind::Kem && w.slots[*i].m.hybrid && mu.opens(&w.slots[*i].m)).collect();
                Ev::PqBinding { user, slot: *rng.pick_opt(&cands)? }
            }
            x if x == Op::ScaleProbe as usize => {
                // rare and cheap when the reader is linear (a few milliseconds)
                if !rng.pct(10) {
                    return None;
                }
                Ev::ScaleProbe { n: *rng.pick(&[10_000usize, 12_000]) }
            }
            x if x == Op::FreshInstances as usize => {
                let es: Vec<usize> = (0..w.encryptors.len()).filter(|e| w.encryptors[*e].mpk.is_some()).collect();
                let e = *rng.pick_opt(&es)?;
                Ev::FreshInstances { user: rng.below(w.users.len()), enc: e, kpol: self.keygen_pol(rng, w), epol: self.enc_pol(rng, w, e) }
            }
            x if x == Op::EncryptOtherThread as usize => {
                let es: Vec<usize> = (0..w.encryptors.len()).filter(|e| w.encryptors[*e].mpk.is_some()).collect();
                let e = *rng.pick_opt(&es)?;
                Ev::EncryptOtherThread { enc: e, pol: self.enc_pol(rng, w, e), n: rng.range(1, 4) as u32 }
            }
            _ => return None,
        })
    }

    /// Position of a secret in a chain: near the newest, near the oldest (50 000 + i counts from
    /// the end, see faults::chain_index), or anywhere.
    fn chain_k_static(rng: &mut Rng) -> usize {
        match rng.below(4) {
            0 => rng.below(3),
            1 => 50_000 + rng.below(3),
            _ => rng.below(40_000),
        }
    }

    pub fn usk_op(&mut self, rng: &mut Rng, w: &World, user: usize) -> UskOp {
        if self.prop == "C17" && rng.pct(25) {
            return UskOp::IdFrom { other_user: rng.below(w.users.len()) };
        }
        if self.prop == "C17" && rng.pct(60) {
            // bytes 1..65 (66 with P-256 points following) hold the identifier markers
            return UskOp::FlipBit { pos: 1 + rng.below(64), bit: rng.below(8) as u8 };
        }
        let n_rights = w.users[user].usk.as_ref().map(|(_, m)| m.rights.len()).unwrap_or(1).max(1);
        let other = rng.below(w.users.len());
        match rng.below(32) {
            24 | 25 => UskOp::SplitChain { i: rng.below(n_rights), k: rng.below(3) },
            26 | 27 => UskOp::AddEmptyRight { other_user: other, j: rng.below(8), raw: { let n = rng.range(0, 3); rng.bytes(n) } },
            28 | 29 => UskOp::MoveSecretToEnd { from: rng.below(n_rights), to: rng.below(n_rights) },
            30 | 31 => UskOp::SwapSecretsAcross { i: rng.below(n_rights), k: Self::chain_k_static(rng), j: rng.below(n_rights), l: Self::chain_k_static(rng) },
            0 | 1 => UskOp::MergeAdjacent { i: rng.below(n_rights) },
            2 => UskOp::SplitName { i: rng.below(n_rights), k: rng.range(1, 3) },
            3 => UskOp::MoveSecret { from: rng.below(n_rights), to: rng.below(n_rights) },
            4 => UskOp::SwapRights { i: rng.below(n_rights), j: rng.below(n_rights) },
            5 => UskOp::DupRight { i: rng.below(n_rights) },
            6 => UskOp::DropRight { i: rng.below(n_rights) },
            7 => UskOp::RenameRight { i: rng.below(n_rights), name: { let n = rng.range(0, 3); rng.bytes(n) } },
            8 => UskOp::DropSecret { i: rng.below(n_rights), k: Self::chain_k_static(rng) },
            9 => UskOp::DupSecret { i: rng.below(n_rights), k: Self::chain_k_static(rng) },
            10 => UskOp::SwapSecrets { i: rng.below(n_rights), k: Self::chain_k_static(rng) },
            11 | 12 => UskOp::HybridToClassicShift { i: rng.below(n_rights) },
            13 => UskOp::FlipFlavourFlag { i: rng.below(n_rights), k: rng.below(2) },
            14 => UskOp::MarkerIntoName,
            15 => UskOp::IdFrom { other_user: other },
            16 => UskOp::RightsUnion { other_user: other },
            17 => UskOp::Foreign,
            18 => UskOp::StripSignature,
            19 => UskOp::AlterSignature { pos: rng.below(32), bit: rng.below(8) as u8 },
            20 => UskOp::SignatureFrom { other_user: other },
            21 => UskOp::FlipBit { pos: rng.below(100_000), bit: rng.below(8) as u8 },
            22 => UskOp::Truncate { len: rng.below(4000) },
            _ => UskOp::ShiftNameBorder { i: rng.below(n_rights), k: rng.below(4) },
        }
    }

    pub fn hostile(&mut self, rng: &mut Rng, w: &World) -> Ev {
        let target = match rng.below(12) {
            0..=3 if !w.slots.is_empty() => HostileTarget::Slot(rng.below(w.slots.len())),
            4 | 5 | 6 => HostileTarget::Usk(rng.below(w.users.len())),
            7 => HostileTarget::Msk,
            8 => HostileTarget::Mpk,
            9 => HostileTarget::Structure,
            _ => HostileTarget::Random { len: *rng.pick(&[0usize, 1, 2, 7, 16, 17, 40, 200, 1000]), seed: rng.next_u64() },
        };
        const BOUNDARY: &[u64] = &[0, 1, 2, 127, 128, 255, 16383, 16384, 1 << 31, (1 << 32) - 1, 1 << 32, 1 << 45, 1 << 62, 1 << 63, u64::MAX];
        let mutation = match rng.below(12) {
            11 => HostileMut::FieldPadded { k: rng.below(40), delta: *rng.pick(&[0u64, 0, 1, 1, 2, 3]), pad: rng.range(1, 3) as u8 },
            10 => HostileMut::Empty { which: rng.below(7) as u8 },
            0 => HostileMut::None,
            1 | 2 => HostileMut::Truncate { len: rng.below(6000) },
            3 => HostileMut::SetByte { pos: rng.below(6000), val: *rng.pick(&[0u8, 1, 2, 0x7f, 0x80, 0xff, 0xfe]) },
            4 => HostileMut::FlipBit { pos: rng.below(6000), bit: rng.below(8) as u8 },
            5..=8 => HostileMut::Field { k: rng.below(40), val: *rng.pick(BOUNDARY) },
            _ => HostileMut::Extend { bytes: { let n = rng.range(1, 20); rng.bytes(n) } },
        };
        // Mostly the parser matching the object, sometimes another one (type confusion).
        let natural = match &target {
            HostileTarget::Slot(i) => match w.slots[*i].kind {
                SlotKind::Header => Parser::Header,
                _ => Parser::XEnc,
            },
            HostileTarget::Usk(_) => Parser::Usk,
            HostileTarget::Msk => Parser::Msk,
            HostileTarget::Mpk => Parser::Mpk,
            HostileTarget::Structure => Parser::Structure,
            HostileTarget::Random { .. } => rng.pick(&[Parser::XEnc, Parser::Header, Parser::Usk, Parser::Mpk, Parser::Msk, Parser::Structure]).clone(),
        };
        let parser = if rng.pct(8) {
            rng.pick(&[Parser::XEnc, Parser::Header, Parser::Usk, Parser::Mpk, Parser::Msk, Parser::Structure]).clone()
        } else {
            natural
        };
        Ev::Hostile { target, mutation, parser }
    }

    /// Closing events: heal the network, refresh everybody, fresh encapsulations, full audit.
    pub fn epilogue(&mut self, rng: &mut Rng, w: &World) -> Vec<Ev> {
        let mut evs = vec![];
        let converge = matches!(self.prop.as_str(), "C03" | "C04" | "C05" | "C06" | "C18" | "C09" | "C13" | "C11") && rng.pct(60);
        if converge {
            // faults off: deliver everything, publish to all, every user refreshes
            for _ in 0..w.net.len() {
                evs.push(Ev::Deliver { reply_delay: 0, reply_dup: false, reply_drop: false });
            }
            evs.push(Ev::DeriveMpk);
            evs.push(Ev::Publish { to: (0..w.encryptors.len()).map(|e| (e, 0, false)).collect() });
            for _ in 0..w.encryptors.len() {
                evs.push(Ev::Deliver { reply_delay: 0, reply_dup: false, reply_drop: false });
            }
            for u in 0..w.users.len() {
                if w.users[u].usk.is_some() {
                    evs.push(Ev::RequestRefresh { user: u, keep: rng.pct(50), delay: 0, dup: false, tamper: None });
                    evs.push(Ev::Deliver { reply_delay: 0, reply_dup: false, reply_drop: false });
                    evs.push(Ev::Deliver { reply_delay: 0, reply_dup: false, reply_drop: false });
                }
            }
            for e in 0..w.encryptors.len() {
                let s = &w.auth.m.structure;
                let p = gen_pol(rng, s, 2);
                evs.push(Ev::Encrypt { enc: e, pol: arg(rng, p), kind: EncKind::Kem, repeat: 1 });
            }
        }
        evs.push(Ev::Audit);
        let thorough = self.thorough;
        match self.prop.as_str() {
            "C07" | "C12" if !w.slots.is_empty() => {
                // enumerated sub-space: quick = strided on one object, thorough = exhaustive
                let pct = if thorough { 12 } else { 6 };
                if rng.pct(pct) {
                    let slot = rng.below(w.slots.len());
                    let mode = match rng.below(4) {
                        0 => SweepMode::BitFlips,
                        1 => SweepMode::Truncations,
                        2 => SweepMode::XorPairs,
                        _ => SweepMode::ByteOverwrites,
                    };
                    // bounded work per sweep: positions x 2 readers x cost of one read (which grows
                    // with the size of the readers' keys); exhaustive when it fits, strided otherwise
                    let positions = match mode {
                        SweepMode::BitFlips => w.slots[slot].orig.len() * 8,
                        SweepMode::XorPairs => w.slots[slot].orig.len() * 4,
                        _ => w.slots[slot].orig.len(),
                    };
                    // one read costs about (secrets in the key) x (components) group operations
                    let units = positions * 2 * self.key_weight(w).max(1) * w.slots[slot].m.targets.len().max(1);
                    let cap = if thorough { 60_000 } else { 8_000 };
                    let stride = units.div_ceil(cap).max(1);
                    evs.push(Ev::SweepSlot { slot, mode, stride });
                }
            }
            "C08" => {
                if rng.pct(if thorough { 30 } else { 10 }) {
                    if let Some(u) = self.user_with_key(rng, w) {
                        evs.push(Ev::SweepUsk { user: u });
                    }
                }
            }
            "C14" => {
                if rng.pct(if thorough { 20 } else { 3 }) {
                    if let Ev::Hostile { target, parser, .. } = self.hostile(rng, w) {
                        // bound the work of one sweep (parses): exhaustive for objects up to the
                        // cap, strided above it
                        let len = crate::run::hostile_bytes(w, &target, &HostileMut::None, &parser).map(|b| b.len()).unwrap_or(0);
                        // every parsed mutant is used with the users' keys: the cost of one call
                        // grows with the size of those keys, the cap shrinks accordingly
                        let cap = (if thorough { 40_000 } else { 3_000 }) * 8 / self.key_weight(w).max(8);
                        // parsing a large object is itself expensive (ML-KEM keys are decoded)
                        let cap = cap * 2_000 / len.max(2_000);
                        let stride = (len * 4).div_ceil(cap.max(50)).max(1);
                        evs.push(Ev::SweepHostile { target, parser, stride });
                    }
                }
            }
            _ => {}
        }
        evs
    }
}
