//! Counting global allocator: current / peak live bytes and the largest single request, so that
//! the untrusted-bytes check can bound the memory a parse may take. A request larger than
//! `HARD_CAP` is refused (null), which makes Rust abort the process: the supervisor reports the
//! death with the seed that was running. A line is written to stderr first (no allocation).

use std::alloc::{GlobalAlloc, Layout, System};
use std::sync::atomic::{AtomicUsize, Ordering};

pub static CUR: AtomicUsize = AtomicUsize::new(0);
pub static PEAK: AtomicUsize = AtomicUsize::new(0);
pub static LARGEST: AtomicUsize = AtomicUsize::new(0);
pub const HARD_CAP: usize = 2 << 30;

pub struct Counting;

fn note(size: usize) {
    let cur = CUR.fetch_add(size, Ordering::Relaxed) + size;
    PEAK.fetch_max(cur, Ordering::Relaxed);
    LARGEST.fetch_max(size, Ordering::Relaxed);
}

fn refuse(size: usize) {
    // "OVERSIZE-ALLOC <size>\n" without allocating
    let mut buf = [0u8; 48];
    let prefix = b"OVERSIZE-ALLOC ";
    buf[..prefix.len()].copy_from_slice(prefix);
    let mut digits = [0u8; 20];
    let mut n = size;
    let mut i = 0;
    loop {
        digits[i] = b'0' + (n % 10) as u8;
        n /= 10;
        i += 1;
        if n == 0 {
            break;
        }
    }
    let mut p = prefix.len();
    while i > 0 {
        i -= 1;
        buf[p] = digits[i];
        p += 1;
    }
    buf[p] = b'\n';
    unsafe {
        libc::write(2, buf.as_ptr() as *const libc::c_void, p + 1);
    }
}

unsafe impl GlobalAlloc for Counting {
    unsafe fn alloc(&self, layout: Layout) -> *mut u8 {
        if layout.size() > HARD_CAP {
            refuse(layout.size());
            return std::ptr::null_mut();
        }
        let p = System.alloc(layout);
        if !p.is_null() {
            note(layout.size());
        }
        p
    }
    unsafe fn alloc_zeroed(&self, layout: Layout) -> *mut u8 {
        if layout.size() > HARD_CAP {
            refuse(layout.size());
            return std::ptr::null_mut();
        }
        let p = System.alloc_zeroed(layout);
        if !p.is_null() {
            note(layout.size());
        }
        p
    }
    unsafe fn dealloc(&self, ptr: *mut u8, layout: Layout) {
        CUR.fetch_sub(layout.size(), Ordering::Relaxed);
        System.dealloc(ptr, layout)
    }
    unsafe fn realloc(&self, ptr: *mut u8, layout: Layout, new_size: usize) -> *mut u8 {
        if new_size > HARD_CAP {
            refuse(new_size);
            return std::ptr::null_mut();
        }
        let p = System.realloc(ptr, layout, new_size);
        if !p.is_null() {
            CUR.fetch_sub(layout.size(), Ordering::Relaxed);
            note(new_size);
        }
        p
    }
}
