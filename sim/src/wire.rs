//! Wire-format reader for the serialized objects of cover_crypt. It lets the oracle observe
//! structural facts (rights, chain lengths, flavours, activation flags, attribute ids, tracing
//! scalars and points) from *bytes*, without access to private fields, and lets the fault layer
//! build structure-aware corruptions. Self-checked at start-up against objects produced by the
//! untampered API (see `selfcheck`).

use std::collections::BTreeMap;

pub const SC: usize = 32;
#[cfg(feature = "cfg-a")]
pub const PT: usize = 32;
#[cfg(feature = "cfg-b")]
pub const PT: usize = 33;
#[cfg(feature = "cfg-a")]
pub const EK: usize = 800;
#[cfg(feature = "cfg-b")]
pub const EK: usize = 1184;
#[cfg(feature = "cfg-a")]
pub const DK: usize = 1632;
#[cfg(feature = "cfg-b")]
pub const DK: usize = 2400;
#[cfg(feature = "cfg-a")]
pub const CT: usize = 768;
#[cfg(feature = "cfg-b")]
pub const CT: usize = 1088;
pub const TAG: usize = 16;
pub const SIG: usize = 32;
pub const SIGN_KEY: usize = 16;
pub const SEED: usize = 32;

#[cfg(feature = "cfg-a")]
pub const FEATURES: &str = "curve25519,mlkem-512";
#[cfg(feature = "cfg-b")]
pub const FEATURES: &str = "p-256,mlkem-768";

pub struct Rd<'a> {
    pub b: &'a [u8],
    pub pos: usize,
}

pub type R<T> = Result<T, String>;

impl<'a> Rd<'a> {
    pub fn new(b: &'a [u8]) -> Self {
        Self { b, pos: 0 }
    }
    pub fn rest(&self) -> usize {
        self.b.len() - self.pos
    }
    pub fn leb(&mut self) -> R<u64> {
        let mut result: u64 = 0;
        let mut shift = 0u32;
        loop {
            let byte = *self.b.get(self.pos).ok_or("eof in leb128")?;
            self.pos += 1;
            if shift >= 64 || (shift == 63 && (byte & 0x7f) > 1) {
                return Err("leb128 overflow".into());
            }
            result |= ((byte & 0x7f) as u64) << shift;
            if byte & 0x80 == 0 {
                return Ok(result);
            }
            shift += 7;
        }
    }
    pub fn take(&mut self, n: usize) -> R<&'a [u8]> {
        if self.rest() < n {
            return Err(format!("eof: want {n} have {}", self.rest()));
        }
        let s = &self.b[self.pos..self.pos + n];
        self.pos += n;
        Ok(s)
    }
    pub fn vec(&mut self) -> R<&'a [u8]> {
        let n = self.leb()? as usize;
        self.take(n)
    }
    pub fn count(&mut self) -> R<usize> {
        let n = self.leb()?;
        if n > self.rest() as u64 + 1 {
            return Err(format!("count {n} larger than remaining input"));
        }
        Ok(n as usize)
    }
}

pub fn leb_encode(mut n: u64) -> Vec<u8> {
    let mut out = vec![];
    loop {
        let mut b = (n & 0x7f) as u8;
        n >>= 7;
        if n != 0 {
            b |= 0x80;
        }
        out.push(b);
        if n == 0 {
            break;
        }
    }
    out
}

/// Offsets (start, end) of a field inside the buffer, for structure-aware mutation.
pub type Span = (usize, usize);

// ---------------------------------------------------------------------------------------------
// Access structure
// ---------------------------------------------------------------------------------------------

#[derive(Clone, Debug, PartialEq, Eq)]
pub struct WAttr {
    pub name: String,
    pub id: u64,
    pub hybrid: bool,
    pub enabled: bool,
    pub id_span: Span,
    pub name_len_span: Span,
}
#[derive(Clone, Debug, PartialEq, Eq)]
pub struct WDim {
    pub name: String,
    pub ordered: bool,
    pub attrs: Vec<WAttr>,
    pub count_span: Span,
    pub name_len_span: Span,
}
#[derive(Clone, Debug, PartialEq, Eq)]
pub struct WStruct {
    pub dims: Vec<WDim>,
    pub count_span: Span,
    pub version: u64,
    pub next_id: Option<u64>,
}

pub fn read_structure(rd: &mut Rd) -> R<WStruct> {
    let version = rd.leb()?;
    if version > 1 {
        return Err(format!("structure version {version}"));
    }
    let s = rd.pos;
    let n = rd.count()?;
    let count_span = (s, rd.pos);
    let mut dims = vec![];
    for _ in 0..n {
        let s = rd.pos;
        let name_b = rd.vec()?;
        let name_len_span = (s, rd.pos - name_b.len());
        let name = String::from_utf8(name_b.to_vec()).map_err(|e| e.to_string())?;
        let ordered = match rd.leb()? {
            0 => false,
            1 => true,
            x => return Err(format!("ordered flag {x}")),
        };
        let s = rd.pos;
        let na = rd.count()?;
        let dcount_span = (s, rd.pos);
        let mut attrs = vec![];
        for _ in 0..na {
            let s = rd.pos;
            let an_b = rd.vec()?;
            let an_span = (s, rd.pos - an_b.len());
            let an = String::from_utf8(an_b.to_vec()).map_err(|e| e.to_string())?;
            let s = rd.pos;
            let id = rd.leb()?;
            let id_span = (s, rd.pos);
            let hybrid = rd.leb()? == 1;
            let enabled = rd.leb()? == 1;
            attrs.push(WAttr {
                name: an,
                id,
                hybrid,
                enabled,
                id_span,
                name_len_span: an_span,
            });
        }
        dims.push(WDim {
            name,
            ordered,
            attrs,
            count_span: dcount_span,
            name_len_span,
        });
    }
    // V2 structures end with the attribute-id counter
    let next_id = if version == 1 { Some(rd.leb()?) } else { None };
    Ok(WStruct { dims, count_span, version, next_id })
}

pub fn parse_structure(b: &[u8]) -> R<WStruct> {
    let mut rd = Rd::new(b);
    let s = read_structure(&mut rd)?;
    if rd.rest() != 0 {
        return Err("trailing bytes after structure".into());
    }
    Ok(s)
}

impl WStruct {
    pub fn attr_id(&self, dim: &str, name: &str) -> Option<u64> {
        self.dims
            .iter()
            .find(|d| d.name == dim)
            .and_then(|d| d.attrs.iter().find(|a| a.name == name))
            .map(|a| a.id)
    }
    pub fn all_ids(&self) -> Vec<u64> {
        self.dims
            .iter()
            .flat_map(|d| d.attrs.iter().map(|a| a.id))
            .collect()
    }
}

// ---------------------------------------------------------------------------------------------
// Right secret / public keys
// ---------------------------------------------------------------------------------------------

#[derive(Clone, Debug, PartialEq, Eq)]
pub struct WSecret {
    pub hybrid: bool,
    pub sk: Vec<u8>,
    /// Whole serialized secret (flag + sk [+ dk]).
    pub span: Span,
}

fn read_right_secret(rd: &mut Rd) -> R<WSecret> {
    let s = rd.pos;
    let flag = rd.leb()?;
    let sk = rd.take(SC)?.to_vec();
    let hybrid = match flag {
        0 => false,
        1 => {
            rd.take(DK)?;
            true
        }
        x => return Err(format!("secret flavour flag {x}")),
    };
    Ok(WSecret {
        hybrid,
        sk,
        span: (s, rd.pos),
    })
}

// ---------------------------------------------------------------------------------------------
// USK
// ---------------------------------------------------------------------------------------------

#[derive(Clone, Debug, PartialEq, Eq)]
pub struct WUskRight {
    pub right: Vec<u8>,
    pub secrets: Vec<WSecret>,
    /// Span of the whole entry: leb(len) name leb(n) secrets...
    pub span: Span,
    pub name_len_span: Span,
    pub name_span: Span,
    pub nkeys_span: Span,
}

#[derive(Clone, Debug, PartialEq, Eq)]
pub struct WUsk {
    pub id: Vec<Vec<u8>>,
    pub id_count_span: Span,
    pub ps: Vec<Vec<u8>>,
    pub ps_count_span: Span,
    pub rights: Vec<WUskRight>,
    pub rights_count_span: Span,
    pub signature: Option<Vec<u8>>,
    pub sig_span: Span,
}

pub fn parse_usk(b: &[u8]) -> R<WUsk> {
    let mut rd = Rd::new(b);
    let s = rd.pos;
    let n = rd.count()?;
    let id_count_span = (s, rd.pos);
    let mut id = vec![];
    for _ in 0..n {
        id.push(rd.take(SC)?.to_vec());
    }
    let s = rd.pos;
    let n = rd.count()?;
    let ps_count_span = (s, rd.pos);
    let mut ps = vec![];
    for _ in 0..n {
        ps.push(rd.take(PT)?.to_vec());
    }
    let s = rd.pos;
    let n = rd.count()?;
    let rights_count_span = (s, rd.pos);
    let mut rights = vec![];
    for _ in 0..n {
        let s = rd.pos;
        let name = rd.vec()?;
        let name_span = (rd.pos - name.len(), rd.pos);
        let name_len_span = (s, name_span.0);
        let ks = rd.pos;
        let nk = rd.count()?;
        let nkeys_span = (ks, rd.pos);
        let mut secrets = vec![];
        for _ in 0..nk {
            secrets.push(read_right_secret(&mut rd)?);
        }
        rights.push(WUskRight {
            right: name.to_vec(),
            secrets,
            span: (s, rd.pos),
            name_len_span,
            name_span,
            nkeys_span,
        });
    }
    let sig_start = rd.pos;
    let signature = if rd.rest() < SIG {
        None
    } else {
        Some(rd.take(SIG)?.to_vec())
    };
    if rd.rest() != 0 {
        return Err(format!("{} trailing bytes after usk", rd.rest()));
    }
    Ok(WUsk {
        id,
        id_count_span,
        ps,
        ps_count_span,
        rights,
        rights_count_span,
        signature,
        sig_span: (sig_start, b.len()),
    })
}

// ---------------------------------------------------------------------------------------------
// MSK
// ---------------------------------------------------------------------------------------------

#[derive(Clone, Debug, PartialEq, Eq)]
pub struct WMskSecret {
    pub activated: bool,
    pub secret: WSecret,
}

#[derive(Clone, Debug)]
pub struct WMsk {
    pub s: Vec<u8>,
    pub tracers: Vec<(Vec<u8>, Vec<u8>)>,
    pub users: Vec<Vec<Vec<u8>>>,
    pub rights: BTreeMap<Vec<u8>, Vec<WMskSecret>>,
    pub has_signing_key: bool,
    pub structure: WStruct,
    pub structure_offset: usize,
    pub spans: Vec<(&'static str, Span)>,
}

pub fn parse_msk(b: &[u8]) -> R<WMsk> {
    let mut rd = Rd::new(b);
    let mut spans = vec![];
    let s = rd.take(SC)?.to_vec();
    let p = rd.pos;
    let nt = rd.count()?;
    spans.push(("tracer-count", (p, rd.pos)));
    let mut tracers = vec![];
    for _ in 0..nt {
        let sk = rd.take(SC)?.to_vec();
        let pk = rd.take(PT)?.to_vec();
        tracers.push((sk, pk));
    }
    let p = rd.pos;
    let nu = rd.count()?;
    spans.push(("user-count", (p, rd.pos)));
    let mut users = vec![];
    for _ in 0..nu {
        let p = rd.pos;
        let n = rd.count()?;
        spans.push(("userid-count", (p, rd.pos)));
        let mut id = vec![];
        for _ in 0..n {
            id.push(rd.take(SC)?.to_vec());
        }
        users.push(id);
    }
    let p = rd.pos;
    let nr = rd.count()?;
    spans.push(("right-count", (p, rd.pos)));
    let mut rights = BTreeMap::new();
    for _ in 0..nr {
        let p = rd.pos;
        let name = rd.vec()?.to_vec();
        spans.push(("right-name-len", (p, rd.pos - name.len())));
        let p = rd.pos;
        let nk = rd.count()?;
        spans.push(("chain-count", (p, rd.pos)));
        let mut chain = vec![];
        for _ in 0..nk {
            let activated = rd.leb()? == 1;
            let secret = read_right_secret(&mut rd)?;
            chain.push(WMskSecret { activated, secret });
        }
        if rights.insert(name, chain).is_some() {
            return Err("duplicate right in msk".into());
        }
    }
    // Signing key: present iff at least SIGN_KEY bytes remain (as the real reader decides).
    let has_signing_key = rd.rest() >= SIGN_KEY;
    if has_signing_key {
        rd.take(SIGN_KEY)?;
    }
    let structure_offset = rd.pos;
    let structure = read_structure(&mut rd)?;
    if rd.rest() != 0 {
        return Err(format!("{} trailing bytes after msk", rd.rest()));
    }
    Ok(WMsk {
        s,
        tracers,
        users,
        rights,
        has_signing_key,
        structure,
        structure_offset,
        spans,
    })
}

// ---------------------------------------------------------------------------------------------
// MPK
// ---------------------------------------------------------------------------------------------

#[derive(Clone, Debug)]
pub struct WMpk {
    pub tpk: Vec<Vec<u8>>,
    /// right -> (hybrid, H point)
    pub keys: BTreeMap<Vec<u8>, (bool, Vec<u8>)>,
    pub structure: WStruct,
    pub spans: Vec<(&'static str, Span)>,
    /// ML-KEM encapsulation key of each hybridized right
    pub eks: BTreeMap<Vec<u8>, Vec<u8>>,
}

pub fn parse_mpk(b: &[u8]) -> R<WMpk> {
    let mut rd = Rd::new(b);
    let mut spans = vec![];
    let p = rd.pos;
    let n = rd.count()?;
    spans.push(("tpk-count", (p, rd.pos)));
    let mut tpk = vec![];
    for _ in 0..n {
        tpk.push(rd.take(PT)?.to_vec());
    }
    let p = rd.pos;
    let nk = rd.count()?;
    spans.push(("key-count", (p, rd.pos)));
    let mut keys = BTreeMap::new();
    let mut eks = BTreeMap::new();
    for _ in 0..nk {
        let p = rd.pos;
        let name = rd.vec()?.to_vec();
        spans.push(("right-name-len", (p, rd.pos - name.len())));
        let flag = rd.leb()?;
        let h = rd.take(PT)?.to_vec();
        let hybrid = match flag {
            0 => false,
            1 => {
                eks.insert(name.clone(), rd.take(EK)?.to_vec());
                true
            }
            x => return Err(format!("public key flavour flag {x}")),
        };
        if keys.insert(name, (hybrid, h)).is_some() {
            return Err("duplicate right in mpk".into());
        }
    }
    let structure = read_structure(&mut rd)?;
    if rd.rest() != 0 {
        return Err(format!("{} trailing bytes after mpk", rd.rest()));
    }
    Ok(WMpk {
        tpk,
        keys,
        eks,
        structure,
        spans,
    })
}

// ---------------------------------------------------------------------------------------------
// XEnc
// ---------------------------------------------------------------------------------------------

#[derive(Clone, Debug, PartialEq, Eq)]
pub struct WEnc {
    pub tag: Vec<u8>,
    pub traps: Vec<Vec<u8>>,
    pub trap_count_span: Span,
    pub hybrid: bool,
    pub flavour_span: Span,
    pub enc_count_span: Span,
    /// (ML-KEM ciphertext span if hybrid, masked seed span)
    pub encs: Vec<(Option<Span>, Span)>,
    pub end: usize,
}

pub fn read_enc(rd: &mut Rd) -> R<WEnc> {
    let tag = rd.take(TAG)?.to_vec();
    let p = rd.pos;
    let n = rd.count()?;
    let trap_count_span = (p, rd.pos);
    let mut traps = vec![];
    for _ in 0..n {
        traps.push(rd.take(PT)?.to_vec());
    }
    let p = rd.pos;
    let flag = rd.leb()?;
    let flavour_span = (p, rd.pos);
    let hybrid = match flag {
        0 => false,
        1 => true,
        x => return Err(format!("encapsulation flavour flag {x}")),
    };
    let p = rd.pos;
    let n = rd.count()?;
    let enc_count_span = (p, rd.pos);
    let mut encs = vec![];
    for _ in 0..n {
        let e = if hybrid {
            let s = rd.pos;
            rd.take(CT)?;
            Some((s, rd.pos))
        } else {
            None
        };
        let s = rd.pos;
        rd.take(SEED)?;
        encs.push((e, (s, rd.pos)));
    }
    Ok(WEnc {
        tag,
        traps,
        trap_count_span,
        hybrid,
        flavour_span,
        enc_count_span,
        encs,
        end: rd.pos,
    })
}

pub fn parse_enc(b: &[u8]) -> R<WEnc> {
    let mut rd = Rd::new(b);
    let e = read_enc(&mut rd)?;
    if rd.rest() != 0 {
        return Err(format!("{} trailing bytes after encapsulation", rd.rest()));
    }
    Ok(e)
}

#[derive(Clone, Debug)]
pub struct WHeader {
    pub enc: WEnc,
    pub meta_len_span: Span,
    pub meta_span: Span,
}

pub fn parse_header(b: &[u8]) -> R<WHeader> {
    let mut rd = Rd::new(b);
    let enc = read_enc(&mut rd)?;
    let p = rd.pos;
    let m = rd.vec()?;
    let meta_span = (rd.pos - m.len(), rd.pos);
    if rd.rest() != 0 {
        return Err("trailing bytes after header".into());
    }
    Ok(WHeader {
        enc,
        meta_len_span: (p, meta_span.0),
        meta_span,
    })
}

/// Encodes a set of SUT attribute ids the way `Right::from_point` does.
pub fn right_bytes(ids: &[u64]) -> Vec<u8> {
    let mut ids = ids.to_vec();
    ids.sort_unstable();
    let mut out = vec![];
    for id in ids {
        out.extend(leb_encode(id));
    }
    out
}

// ---------------------------------------------------------------------------------------------
// Count / length / flag fields of a valid serialization (targets for hostile rewriting)
// ---------------------------------------------------------------------------------------------

fn structure_spans(ws: &WStruct, base: usize, out: &mut Vec<Span>) {
    let sh = |s: Span| (s.0 + base, s.1 + base);
    out.push(sh(ws.count_span));
    for d in &ws.dims {
        out.push(sh(d.name_len_span));
        out.push(sh(d.count_span));
        for a in &d.attrs {
            out.push(sh(a.name_len_span));
            out.push(sh(a.id_span));
        }
    }
}

fn enc_spans(e: &WEnc, out: &mut Vec<Span>) {
    out.push(e.trap_count_span);
    out.push(e.flavour_span);
    out.push(e.enc_count_span);
}

/// Spans of every LEB128 count, length or flag field, by object type name.
pub fn field_spans(kind: &str, b: &[u8]) -> Vec<Span> {
    let mut out = vec![];
    match kind {
        "xenc" => {
            if let Ok(e) = parse_enc(b) {
                enc_spans(&e, &mut out);
            }
        }
        "header" => {
            if let Ok(h) = parse_header(b) {
                enc_spans(&h.enc, &mut out);
                out.push(h.meta_len_span);
            }
        }
        "usk" => {
            if let Ok(u) = parse_usk(b) {
                out.push(u.id_count_span);
                out.push(u.ps_count_span);
                out.push(u.rights_count_span);
                for r in &u.rights {
                    out.push(r.name_len_span);
                    out.push(r.nkeys_span);
                    for s in &r.secrets {
                        out.push((s.span.0, s.span.0 + 1));
                    }
                }
            }
        }
        "mpk" => {
            if let Ok(m) = parse_mpk(b) {
                for (_, s) in &m.spans {
                    out.push(*s);
                }
                // the structure is the tail of the MPK
                if let Ok(sb) = structure_tail_offset(b, &m.structure) {
                    structure_spans(&m.structure, sb, &mut out);
                }
            }
        }
        "msk" => {
            if let Ok(m) = parse_msk(b) {
                for (_, s) in &m.spans {
                    out.push(*s);
                }
                structure_spans(&m.structure, 0, &mut out);
            }
        }
        "structure" => {
            if let Ok(s) = parse_structure(b) {
                structure_spans(&s, 0, &mut out);
            }
        }
        _ => {}
    }
    out
}

fn structure_tail_offset(_b: &[u8], _s: &WStruct) -> R<usize> {
    // spans recorded by `read_structure` are absolute offsets in the buffer it was read from
    Ok(0)
}

/// Non-canonical LEB128: `n` followed by `pad` redundant continuation bytes (0x80 ... 0x00).
pub fn leb_encode_padded(n: u64, pad: u8) -> Vec<u8> {
    let mut out = leb_encode(n);
    if pad > 0 {
        let last = out.len() - 1;
        out[last] |= 0x80;
        for _ in 1..pad {
            out.push(0x80);
        }
        out.push(0x00);
    }
    out
}
