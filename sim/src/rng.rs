//! Harness PRNG: SplitMix64-seeded xoshiro256**. Every simulator choice (who acts, which
//! operation, arguments, delays, drops, faults) is drawn from one stream derived from the run
//! seed. Logging never draws from it.

#[derive(Clone, Debug)]
pub struct Rng {
    s: [u64; 4],
}

pub fn splitmix(x: &mut u64) -> u64 {
    *x = x.wrapping_add(0x9E37_79B9_7F4A_7C15);
    let mut z = *x;
    z = (z ^ (z >> 30)).wrapping_mul(0xBF58_476D_1CE4_E5B9);
    z = (z ^ (z >> 27)).wrapping_mul(0x94D0_49BB_1331_11EB);
    z ^ (z >> 31)
}

/// Mixes two integers into one (used to derive sub-seeds: run seed x purpose).
pub fn mix(a: u64, b: u64) -> u64 {
    let mut x = a ^ b.rotate_left(32) ^ 0xD6E8_FEB8_6659_FD93;
    let r = splitmix(&mut x);
    let mut y = r ^ b;
    splitmix(&mut y)
}

impl Rng {
    pub fn new(seed: u64) -> Self {
        let mut x = seed;
        let s = [
            splitmix(&mut x),
            splitmix(&mut x),
            splitmix(&mut x),
            splitmix(&mut x),
        ];
        Self { s }
    }

    pub fn next_u64(&mut self) -> u64 {
        let result = self.s[1].wrapping_mul(5).rotate_left(7).wrapping_mul(9);
        let t = self.s[1] << 17;
        self.s[2] ^= self.s[0];
        self.s[3] ^= self.s[1];
        self.s[1] ^= self.s[2];
        self.s[0] ^= self.s[3];
        self.s[2] ^= t;
        self.s[3] = self.s[3].rotate_left(45);
        result
    }

    /// Uniform in 0..n (n > 0).
    pub fn below(&mut self, n: usize) -> usize {
        debug_assert!(n > 0);
        (self.next_u64() % n as u64) as usize
    }

    /// Uniform in lo..=hi.
    pub fn range(&mut self, lo: usize, hi: usize) -> usize {
        lo + self.below(hi - lo + 1)
    }

    /// True with probability pct / 100.
    pub fn pct(&mut self, pct: u32) -> bool {
        (self.next_u64() % 100) < pct as u64
    }

    pub fn pick<'a, T>(&mut self, xs: &'a [T]) -> &'a T {
        &xs[self.below(xs.len())]
    }

    pub fn pick_opt<'a, T>(&mut self, xs: &'a [T]) -> Option<&'a T> {
        if xs.is_empty() {
            None
        } else {
            Some(&xs[self.below(xs.len())])
        }
    }

    /// Index drawn according to integer weights (at least one must be non-zero).
    pub fn weighted(&mut self, ws: &[u32]) -> usize {
        let total: u64 = ws.iter().map(|w| *w as u64).sum();
        debug_assert!(total > 0);
        let mut x = self.next_u64() % total;
        for (i, w) in ws.iter().enumerate() {
            if x < *w as u64 {
                return i;
            }
            x -= *w as u64;
        }
        ws.len() - 1
    }

    pub fn bytes(&mut self, n: usize) -> Vec<u8> {
        let mut v = Vec::with_capacity(n);
        while v.len() < n {
            let x = self.next_u64().to_le_bytes();
            let k = (n - v.len()).min(8);
            v.extend_from_slice(&x[..k]);
        }
        v
    }

    pub fn shuffle<T>(&mut self, xs: &mut [T]) {
        for i in (1..xs.len()).rev() {
            let j = self.below(i + 1);
            xs.swap(i, j);
        }
    }

    pub fn fork(&mut self, label: u64) -> Rng {
        Rng::new(mix(self.next_u64(), label))
    }
}
