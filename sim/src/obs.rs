//! Observation classes: every oracle comparison belongs to one class; a property's check owns a
//! set of classes. A failing observation of an owned class is a violation of that property; a
//! failing observation of a class that is not owned but means "model and SUT have diverged" ends
//! the run without an alarm (counted in the evidence).

#[derive(Clone, Copy, Debug, PartialEq, Eq, Hash, PartialOrd, Ord)]
pub enum Class {
    /// Model predicts `Some(exact secret)`; SUT returned something else.
    DecapsSome,
    /// Model predicts `None`; SUT returned a secret.
    DecapsNone,
    /// `is_ok()` of a call differs from the model's prediction.
    OkErr,
    /// `is_ok()` of a refresh differs from the model (also owned by C06: "stay refreshable").
    OkErrRefresh,
    /// Encapsulation for a right whose attribute is disabled succeeded under an MPK produced
    /// after disable+update.
    EncapsDisabled,
    /// A call returned Err and a key taken by `&mut` changed.
    Unchanged,
    /// A new attribute got the id of another attribute that existed along the MSK lineage.
    IdUnique,
    /// Chain lengths / rights of a user key (from its bytes) differ from the model.
    UskShape,
    /// Rights / chain lengths of the master key differ from the model.
    MskShape,
    /// Set of published rights of an MPK differs from the model.
    MpkKeys,
    /// Classic/hybridized flavour of some key material or encapsulation differs from the model.
    Flavour,
    /// Serialization length / round-trip equality / use of the reloaded object.
    Reload,
    /// Some secret, tag, trap, nonce, identifier or published point was seen twice.
    Fresh,
    /// Tracing relation / registration of user identifiers.
    Tracing,
    /// Re-encapsulation audience.
    Recaps,
    /// A tampered encapsulation / ciphertext yielded a secret or plaintext.
    Tamper,
    /// A user key that was not issued was accepted for refresh (or state changed on refusal).
    Forged,
    /// PKE / header round-trip and authentication.
    Pke,
    /// The SUT panicked.
    Panic,
    /// Untrusted bytes: panic, over-allocation, (abort / hang are detected by the supervisor).
    Hostile,
}

impl Class {
    pub fn name(&self) -> &'static str {
        match self {
            Class::DecapsSome => "decaps-expected-some",
            Class::DecapsNone => "decaps-expected-none",
            Class::OkErr => "ok-err",
            Class::OkErrRefresh => "ok-err-refresh",
            Class::EncapsDisabled => "encaps-disabled-right",
            Class::Unchanged => "state-changed-on-err",
            Class::IdUnique => "attribute-id-reused",
            Class::UskShape => "usk-shape",
            Class::MskShape => "msk-shape",
            Class::MpkKeys => "mpk-keys",
            Class::Flavour => "flavour",
            Class::Reload => "reload",
            Class::Fresh => "freshness",
            Class::Tracing => "tracing",
            Class::Recaps => "recaps",
            Class::Tamper => "tamper-accepted",
            Class::Forged => "forged-usk",
            Class::Pke => "pke-header",
            Class::Panic => "panic",
            Class::Hostile => "hostile-bytes",
        }
    }

    /// Does a failing observation of this class mean that SUT state and model state have
    /// diverged (so that later expectations are meaningless)?
    pub fn diverging(&self) -> bool {
        matches!(
            self,
            Class::OkErr
                | Class::OkErrRefresh
                | Class::EncapsDisabled
                | Class::Panic
                | Class::Unchanged
        )
        // (a reused attribute id is *not* diverging: the model keeps the two identities apart,
        // which is exactly what C01-C06 state; what the conflation then lets a key open is a
        // violation of those properties, not an artefact)
    }
}

#[derive(Clone, Debug)]
pub struct Obs {
    pub class: Class,
    /// Stable part: goes into the violation signature.
    pub what: String,
    /// Free-form detail (names, seeds, lengths): not part of the signature.
    pub detail: String,
}

pub fn owned_classes(prop: &str) -> &'static [Class] {
    use Class::*;
    match prop {
        "C01" => &[DecapsSome],
        "C02" => &[DecapsNone],
        "C03" => &[DecapsSome, DecapsNone, IdUnique],
        "C04" => &[DecapsSome, DecapsNone, UskShape],
        "C05" => &[DecapsSome, DecapsNone, UskShape, MskShape],
        "C06" => &[EncapsDisabled, MpkKeys, DecapsSome, OkErrRefresh],
        "C07" => &[Tamper],
        "C08" => &[Forged],
        "C09" => &[OkErr, OkErrRefresh, EncapsDisabled, Panic],
        "C10" => &[Unchanged],
        "C11" => &[Flavour],
        "C12" => &[Pke, Panic],
        "C13" => &[Reload],
        "C14" => &[Hostile],
        "C16" => &[Fresh],
        "C17" => &[Tracing],
        "C18" => &[Recaps],
        _ => &[],
    }
}
