//! Golden objects (C13): durable state written by the *pinned* release (tools/goldengen, run
//! against a worktree of /repo at 8f3c295) must keep deserializing to working objects with the
//! current tree — the simulated upgrade. Expectations below were derived by hand from the
//! history recorded in golden/<features>/manifest.json (rights and revisions), not from running
//! any version of the code.

use cosmian_cover_crypt::{
    api::Covercrypt, traits::KemAc, AccessPolicy, AccessStructure, EncryptedHeader, EncryptionHint,
    MasterPublicKey, MasterSecretKey, QualifiedAttribute, UserSecretKey, XEnc,
};
use cosmian_crypto_core::bytes_ser_de::Serializable;

use crate::obs::Class;
use crate::seams::{guard, seeded_cc};
use crate::wire;
use crate::world::World;

/// rows: enc0..enc4, header0, header1; columns: usk0..usk4
const OPENS: [[bool; 5]; 7] = [
    [true, false, false, true, false],
    [false, false, false, false, true],
    [true, false, false, false, false],
    [false, false, false, false, true],
    [false, false, false, false, true],
    [true, false, false, false, true],
    [false, false, false, false, true],
];

/// Name-level cover of the golden user policies over fresh encryption policies.
const FRESH_POLICIES: [&str; 4] = ["SEC::LOW && DPT::FIN", "DPT::HR", "SEC::TOP", "*"];
/// users: TOP&&FIN, LOW&&HR, MKG, MID, TOP
const FRESH_OPENS: [[bool; 5]; 4] = [
    [true, false, false, true, true],
    [false, true, false, true, true],
    [true, false, true, false, true],
    [true, true, true, true, true],
];

fn unhex(s: &str) -> Vec<u8> {
    (0..s.len() / 2).map(|i| u8::from_str_radix(&s[2 * i..2 * i + 2], 16).unwrap_or(0)).collect()
}

pub fn check_golden(w: &mut World) {
    let dir = format!("{}/golden/{}", crate::supervisor::verif_root(), wire::FEATURES);
    let r = guard(|| run(&dir));
    match r {
        Err(p) => w.fail(Class::Reload, "golden/panic", p),
        Ok(Err(e)) => {
            // missing files are a harness problem, not a property violation
            w.stats.unobservable += 1;
            w.outcomes.push(format!("golden:unavailable:{e}"));
        }
        Ok(Ok(fails)) => {
            w.stats.check("golden");
            w.stats.probe("golden-objects-used");
            for (what, detail) in fails {
                if what.contains("gets-id-of-live-attribute") || what.contains("reuses-id") {
                    w.fail(Class::IdUnique, format!("golden/{what}"), detail.clone());
                }
                if what.contains("classic-encapsulation") {
                    w.fail(Class::Flavour, format!("golden/{what}"), detail.clone());
                }
                w.fail(Class::Reload, format!("golden/{what}"), detail);
            }
            w.outcomes.push("golden".into());
        }
    }
}

fn run(dir: &str) -> Result<Vec<(String, String)>, String> {
    let rd = |n: &str| std::fs::read(format!("{dir}/{n}")).map_err(|e| format!("{n}: {e}"));
    let manifest: serde_json::Value = serde_json::from_slice(&rd("manifest.json")?).map_err(|e| e.to_string())?;
    let mut fails: Vec<(String, String)> = vec![];
    let cc: Covercrypt = seeded_cc(0x601D, 1);
    macro_rules! de {
        ($t:ty, $name:expr) => {
            match <$t>::deserialize(&rd($name)?) {
                Ok(v) => Some(v),
                Err(e) => {
                    fails.push((format!("{}-does-not-deserialize", $name.split('.').next().unwrap().trim_end_matches(char::is_numeric)), format!("{}: {e}", $name)));
                    None
                }
            }
        };
    }
    let msk = de!(MasterSecretKey, "msk.bin");
    let mpk0 = de!(MasterPublicKey, "mpk0.bin");
    let mpk2 = de!(MasterPublicKey, "mpk2.bin");
    let _ = de!(MasterSecretKey, "empty_msk.bin");
    let _ = de!(MasterPublicKey, "empty_mpk.bin");
    let structure = de!(AccessStructure, "structure.bin");
    let usks: Vec<Option<UserSecretKey>> = (0..5).map(|i| UserSecretKey::deserialize(&rd(&format!("usk{i}.bin")).unwrap_or_default()).ok()).collect();
    if usks.iter().any(|u| u.is_none()) {
        fails.push(("usk-does-not-deserialize".into(), String::new()));
    }
    let encs: Vec<Option<XEnc>> = (0..5).map(|i| XEnc::deserialize(&rd(&format!("enc{i}.bin")).unwrap_or_default()).ok()).collect();
    if encs.iter().any(|u| u.is_none()) {
        fails.push(("xenc-does-not-deserialize".into(), String::new()));
    }
    let headers: Vec<Option<EncryptedHeader>> = (0..2).map(|i| EncryptedHeader::deserialize(&rd(&format!("header{i}.bin")).unwrap_or_default()).ok()).collect();
    if headers.iter().any(|u| u.is_none()) {
        fails.push(("header-does-not-deserialize".into(), String::new()));
    }
    // round trip of the deserialized golden objects: length and equality
    macro_rules! rt {
        ($o:expr, $t:ty, $n:expr) => {
            if let Some(o) = $o {
                match o.serialize() {
                    Ok(b) => {
                        if b.len() != o.length() {
                            fails.push((format!("{}-length-mismatch", $n), String::new()));
                        }
                        match <$t>::deserialize(&b) {
                            Ok(o2) => {
                                if &o2 != o {
                                    fails.push((format!("{}-round-trip-not-equal", $n), String::new()));
                                }
                            }
                            Err(e) => fails.push((format!("{}-reserialized-does-not-deserialize", $n), e.to_string())),
                        }
                    }
                    Err(e) => fails.push((format!("{}-does-not-serialize", $n), e.to_string())),
                }
            }
        };
    }
    rt!(&msk, MasterSecretKey, "msk");
    rt!(&mpk2, MasterPublicKey, "mpk");
    rt!(&structure, AccessStructure, "structure");
    for u in &usks {
        rt!(u, UserSecretKey, "usk");
    }
    for e in &encs {
        rt!(e, XEnc, "xenc");
    }
    // golden keys open golden encapsulations exactly as the recorded history implies
    let enc_meta = manifest["encapsulations"].as_array().cloned().unwrap_or_default();
    for (i, e) in encs.iter().enumerate() {
        let Some(e) = e else { continue };
        let secret = unhex(enc_meta.get(i).and_then(|m| m["secret"].as_str()).unwrap_or(""));
        for (j, u) in usks.iter().enumerate() {
            let Some(u) = u else { continue };
            match cc.decaps(u, e) {
                Ok(Some(s)) => {
                    if !OPENS[i][j] {
                        fails.push(("golden-key-opens-unauthorized-encapsulation".into(), format!("enc{i} usk{j}")));
                    } else if s.to_vec() != secret {
                        fails.push(("golden-key-wrong-secret".into(), format!("enc{i} usk{j}")));
                    }
                }
                Ok(None) => {
                    if OPENS[i][j] {
                        fails.push(("golden-key-no-longer-opens-golden-encapsulation".into(), format!("enc{i} usk{j}")));
                    }
                }
                Err(e) => fails.push(("golden-decaps-error".into(), format!("enc{i} usk{j}: {e}"))),
            }
        }
    }
    let hmeta = manifest["headers"].as_array().cloned().unwrap_or_default();
    for (i, h) in headers.iter().enumerate() {
        let Some(h) = h else { continue };
        let m = &hmeta[i];
        let secret = unhex(m["secret"].as_str().unwrap_or(""));
        let md = unhex(m["metadata"].as_str().unwrap_or(""));
        let aad = unhex(m["aad"].as_str().unwrap_or(""));
        for (j, u) in usks.iter().enumerate() {
            let Some(u) = u else { continue };
            match h.decrypt(&cc, u, if aad.is_empty() { None } else { Some(&aad) }) {
                Ok(Some(c)) => {
                    if !OPENS[5 + i][j] {
                        fails.push(("golden-key-opens-unauthorized-header".into(), format!("header{i} usk{j}")));
                    } else if c.secret.to_vec() != secret || c.metadata.unwrap_or_default() != md {
                        fails.push(("golden-header-wrong-data".into(), format!("header{i} usk{j}")));
                    }
                }
                Ok(None) => {
                    if OPENS[5 + i][j] {
                        fails.push(("golden-key-no-longer-opens-golden-header".into(), format!("header{i} usk{j}")));
                    }
                }
                Err(e) => fails.push(("golden-header-decrypt-error".into(), format!("header{i} usk{j}: {e}"))),
            }
        }
    }
    // the golden MSK keeps working: refresh golden keys, publish, issue, rotate, edit
    if let Some(mut msk) = msk {
        let ap = |s: &str| AccessPolicy::parse(s).map_err(|e| e.to_string());
        let mut refreshed = vec![];
        for (j, u) in usks.iter().enumerate() {
            let Some(u) = u else { continue };
            let mut k = u.clone();
            match cc.refresh_usk(&mut msk, &mut k, j % 2 == 0) {
                Ok(()) => refreshed.push((j, k)),
                Err(e) => fails.push(("golden-msk-refuses-golden-usk".into(), format!("usk{j}: {e}"))),
            }
        }
        match msk.mpk() {
            Ok(mpk_now) => {
                if let Some(m2) = &mpk2 {
                    if &mpk_now != m2 {
                        fails.push(("golden-msk-derives-different-mpk".into(), String::new()));
                    }
                }
                for (pi, p) in FRESH_POLICIES.iter().enumerate() {
                    match cc.encaps(&mpk_now, &ap(p)?) {
                        Ok((s, e)) => {
                            for (j, k) in &refreshed {
                                match cc.decaps(k, &e) {
                                    Ok(r) => {
                                        if r.is_some() != FRESH_OPENS[pi][*j] {
                                            fails.push(("refreshed-golden-key-authorisation".into(), format!("policy {p} usk{j}: {}", r.is_some())));
                                        } else if let Some(x) = r {
                                            if x.to_vec() != s.to_vec() {
                                                fails.push(("refreshed-golden-key-wrong-secret".into(), format!("policy {p} usk{j}")));
                                            }
                                        }
                                    }
                                    Err(e) => fails.push(("refreshed-golden-key-decaps-error".into(), e.to_string())),
                                }
                            }
                        }
                        Err(e) => fails.push(("golden-mpk-encaps-error".into(), format!("{p}: {e}"))),
                    }
                }
                // the disabled attribute stays disabled
                if cc.encaps(&mpk_now, &ap("DPT::MKG")?).is_ok() {
                    fails.push(("golden-disabled-attribute-encryptable".into(), String::new()));
                }
            }
            Err(e) => fails.push(("golden-msk-mpk-error".into(), e.to_string())),
        }
        // old MPK still encapsulates, un-refreshed golden keys open it
        if let (Some(m0), Some(Some(u1))) = (&mpk0, usks.get(1)) {
            match cc.encaps(m0, &ap("SEC::LOW && DPT::HR")?) {
                Ok((s, e)) => match cc.decaps(u1, &e) {
                    Ok(Some(x)) if x.to_vec() == s.to_vec() => {}
                    other => fails.push(("golden-mpk0-usk1-round-trip".into(), format!("{:?}", other.map(|o| o.is_some()).map_err(|e| e.to_string())))),
                },
                Err(e) => fails.push(("golden-mpk0-encaps-error".into(), e.to_string())),
            }
        }
        // further life of the golden MSK
        if let Err(e) = cc.rekey(&mut msk, &ap("SEC::TOP")?) {
            fails.push(("golden-msk-rekey-error".into(), e.to_string()));
        }
        match cc.generate_user_secret_key(&mut msk, &ap("DPT::HR")?) {
            Ok(k) => {
                if let Some(Some(e1)) = encs.get(1) {
                    // {TOP,HR} was just re-keyed: a new key does not open the old encapsulation
                    if let Ok(Some(_)) = cc.decaps(&k, e1) {
                        fails.push(("golden-new-key-opens-rekeyed-old-encapsulation".into(), String::new()));
                    }
                }
            }
            Err(e) => fails.push(("golden-msk-keygen-error".into(), e.to_string())),
        }
        // a new attribute gets an id no golden attribute has
        let before: Vec<u64> = msk.access_structure.serialize().ok().and_then(|b| wire::parse_structure(&b).ok()).map(|s| s.all_ids()).unwrap_or_default();
        if msk.access_structure.add_attribute(QualifiedAttribute::new("DPT", "NEW"), EncryptionHint::Classic, None).is_ok() {
            if let Some(id) = msk.access_structure.serialize().ok().and_then(|b| wire::parse_structure(&b).ok()).and_then(|s| s.attr_id("DPT", "NEW")) {
                if before.contains(&id) {
                    fails.push(("golden-structure-new-attribute-reuses-id".into(), format!("id {id}")));
                }
            }
            if let Err(e) = cc.update_msk(&mut msk) {
                fails.push(("golden-msk-update-error".into(), e.to_string()));
            }
        } else {
            fails.push(("golden-structure-add-attribute-error".into(), String::new()));
        }
    }
    // ---- the legacy master key whose ids have a gap ----
    if let Ok(gb) = rd("gap_msk.bin") {
        match MasterSecretKey::deserialize(&gb) {
            Err(e) => fails.push(("gap-msk-does-not-deserialize".into(), e.to_string())),
            Ok(mut gm) => {
                let ap = |s: &str| AccessPolicy::parse(s).map_err(|e| e.to_string());
                let live: Vec<u64> = gm.access_structure.serialize().ok().and_then(|b| wire::parse_structure(&b).ok()).map(|s| s.all_ids()).unwrap_or_default();
                if gm.access_structure.add_attribute(QualifiedAttribute::new("G", "gnew"), EncryptionHint::Hybridized, None).is_err() {
                    fails.push(("gap-structure-add-attribute-error".into(), String::new()));
                } else {
                    let new_id = gm.access_structure.serialize().ok().and_then(|b| wire::parse_structure(&b).ok()).and_then(|s| s.attr_id("G", "gnew"));
                    if let Some(id) = new_id {
                        if live.contains(&id) {
                            fails.push(("legacy-structure-new-attribute-gets-id-of-live-attribute".into(), format!("id {id}, live ids {:?}", live)));
                        }
                    }
                    match cc.update_msk(&mut gm) {
                        Err(e) => fails.push(("gap-msk-update-error".into(), e.to_string())),
                        Ok(gmpk) => {
                            // the new attribute is its own right: hybridized, and disjoint from g2
                            let k2 = UserSecretKey::deserialize(&rd("gap_usk2.bin")?).map_err(|e| e.to_string())?;
                            if let Ok((_, e_new)) = cc.encaps(&gmpk, &ap("G::gnew")?) {
                                if let Ok(b) = e_new.serialize() {
                                    if let Ok(we) = wire::parse_enc(&b) {
                                        if !we.hybrid {
                                            fails.push(("legacy-structure-new-hybridized-attribute-gets-classic-encapsulation".into(), String::new()));
                                        }
                                    }
                                }
                                if let Ok(Some(_)) = cc.decaps(&k2, &e_new) {
                                    fails.push(("legacy-structure-old-key-opens-new-attribute".into(), String::new()));
                                }
                            } else {
                                fails.push(("gap-mpk-encaps-error".into(), String::new()));
                            }
                            match cc.generate_user_secret_key(&mut gm, &ap("G::gnew")?) {
                                Ok(knew) => {
                                    if let Ok(e2) = XEnc::deserialize(&rd("gap_enc2.bin")?) {
                                        if let Ok(Some(_)) = cc.decaps(&knew, &e2) {
                                            fails.push(("legacy-structure-new-attribute-key-opens-old-attribute".into(), String::new()));
                                        }
                                        match cc.decaps(&k2, &e2) {
                                            Ok(Some(s)) if s.to_vec() == rd("gap_secret2.bin")? => {}
                                            _ => fails.push(("gap-key-no-longer-opens-gap-encapsulation".into(), String::new())),
                                        }
                                    }
                                }
                                Err(e) => fails.push(("gap-msk-keygen-error".into(), e.to_string())),
                            }
                        }
                    }
                }
            }
        }
    }
    Ok(fails)
}
