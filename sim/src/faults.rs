//! Fault operators: byte-level storage faults, structure-aware corruption of encapsulations and
//! structure-aware re-framing of serialized user keys.

use cosmian_cover_crypt::{EncryptedHeader, UserSecretKey, XEnc};
use cosmian_crypto_core::bytes_ser_de::{Deserializer, Serializable};

use crate::events::*;
use crate::wire::{self, leb_encode};
use crate::world::{SlotKind, World};

pub fn usk_op_name(op: &UskOp) -> &'static str {
    match op {
        UskOp::MergeAdjacent { .. } => "merge-adjacent-rights",
        UskOp::SplitName { .. } => "split-right-name",
        UskOp::MoveSecret { .. } => "move-secret-between-chains",
        UskOp::SwapRights { .. } => "reorder-rights",
        UskOp::DupRight { .. } => "duplicate-right",
        UskOp::DropRight { .. } => "drop-right",
        UskOp::RenameRight { .. } => "rename-right",
        UskOp::DropSecret { .. } => "drop-secret",
        UskOp::DupSecret { .. } => "duplicate-secret",
        UskOp::SwapSecrets { .. } => "reorder-secrets",
        UskOp::HybridToClassicShift { .. } => "hybrid-to-classic-shift",
        UskOp::FlipFlavourFlag { .. } => "flip-flavour-flag",
        UskOp::MarkerIntoName => "marker-into-name",
        UskOp::IdFrom { .. } => "id-of-other-key",
        UskOp::RightsUnion { .. } => "union-of-two-keys",
        UskOp::Foreign => "foreign-authority-key",
        UskOp::StripSignature => "strip-signature",
        UskOp::AlterSignature { .. } => "alter-signature",
        UskOp::SignatureFrom { .. } => "signature-of-other-key",
        UskOp::FlipBit { .. } => "bit-flip",
        UskOp::Truncate { .. } => "truncate",
        UskOp::ShiftNameBorder { .. } => "shift-name-secret-border",
        UskOp::SplitChain { .. } => "split-chain",
        UskOp::AddEmptyRight { .. } => "add-right-without-secret",
        UskOp::MoveSecretToEnd { .. } => "move-secret-to-end-of-other-chain",
        UskOp::SwapSecretsAcross { .. } => "swap-secrets-across-rights",
    }
}

/// Index into a chain of `len` secrets: small values count from the newest secret, values from
/// 50 000 on count from the oldest one (the tail of a long chain), anything else wraps around.
fn chain_index(k: usize, len: usize) -> usize {
    if len == 0 {
        0
    } else if k >= 50_000 && k < 50_000 + len {
        len - 1 - (k - 50_000)
    } else {
        k % len
    }
}

/// Re-assembles a user key from parts.
struct UskParts {
    id: Vec<Vec<u8>>,
    ps: Vec<Vec<u8>>,
    /// (right name, serialized secrets)
    rights: Vec<(Vec<u8>, Vec<Vec<u8>>)>,
    sig: Option<Vec<u8>>,
}

impl UskParts {
    fn from(b: &[u8]) -> Option<Self> {
        let w = wire::parse_usk(b).ok()?;
        Some(UskParts {
            id: w.id.clone(),
            ps: w.ps.clone(),
            rights: w
                .rights
                .iter()
                .map(|r| {
                    (
                        r.right.clone(),
                        r.secrets.iter().map(|s| b[s.span.0..s.span.1].to_vec()).collect(),
                    )
                })
                .collect(),
            sig: w.signature.clone(),
        })
    }
    fn build(&self) -> Vec<u8> {
        let mut out = leb_encode(self.id.len() as u64);
        for m in &self.id {
            out.extend_from_slice(m);
        }
        out.extend(leb_encode(self.ps.len() as u64));
        for p in &self.ps {
            out.extend_from_slice(p);
        }
        out.extend(leb_encode(self.rights.len() as u64));
        for (name, secrets) in &self.rights {
            out.extend(leb_encode(name.len() as u64));
            out.extend_from_slice(name);
            out.extend(leb_encode(secrets.len() as u64));
            for s in secrets {
                out.extend_from_slice(s);
            }
        }
        if let Some(s) = &self.sig {
            out.extend_from_slice(s);
        }
        out
    }
}

/// The byte string the issuer's KMAC is computed over (markers, then for each right its name
/// followed by the scalar and ML-KEM key of each secret), plus the signature itself.
pub fn mac_view(b: &[u8]) -> Option<(Vec<u8>, Option<Vec<u8>>)> {
    let w = wire::parse_usk(b).ok()?;
    let mut out = vec![];
    for m in &w.id {
        out.extend_from_slice(m);
    }
    for r in &w.rights {
        out.extend_from_slice(&r.right);
        for s in &r.secrets {
            out.extend_from_slice(&b[s.span.0 + 1..s.span.1]);
        }
    }
    Some((out, w.signature.clone()))
}

/// Serialized key without its tracing points (which C08 does not speak about).
pub fn without_ps(b: &[u8]) -> Option<Vec<u8>> {
    let w = wire::parse_usk(b).ok()?;
    let mut out = b[..w.ps_count_span.0].to_vec();
    out.extend_from_slice(&b[w.rights_count_span.0..]);
    Some(out)
}

fn other_usk_bytes(w: &World, user: usize) -> Option<Vec<u8>> {
    w.users
        .get(user)
        .and_then(|u| u.usk.as_ref())
        .and_then(|(k, _)| k.serialize().ok())
        .map(|b| b.to_vec())
}

/// Applies a re-framing operator to serialized user-key bytes. `None` when not applicable.
pub fn apply_usk_op(w: &mut World, user: usize, bytes: &[u8], op: &UskOp) -> Option<Vec<u8>> {
    let mut p = UskParts::from(bytes)?;
    match op {
        UskOp::MergeAdjacent { i } => {
            if *i + 1 >= p.rights.len() {
                return None;
            }
            let (n0, s0) = p.rights[*i].clone();
            let (n1, s1) = p.rights[*i + 1].clone();
            // KMAC input is name0 | sk(s0)... | name1 | sk(s1)...: the serialized secret also
            // carries a flavour byte that is *not* MACed, so only the MACed bytes are merged.
            let mut name = n0;
            for s in &s0 {
                name.extend_from_slice(&s[1..]);
            }
            name.extend_from_slice(&n1);
            p.rights[*i] = (name, s1);
            p.rights.remove(*i + 1);
        }
        UskOp::SplitName { i, k } => {
            let (n, s) = p.rights.get(*i)?.clone();
            if n.len() < 2 || *k == 0 || *k >= n.len() {
                return None;
            }
            // right i keeps the first k bytes of its name and no secret cannot exist (empty
            // chains are dropped by the reader), so split into name[..k] with the chain and a
            // zero-length continuation: name[..k] | chain, then name[k..] as a new right with a
            // copy of the chain's last secret.
            let last = s.last()?.clone();
            p.rights[*i] = (n[..*k].to_vec(), s);
            p.rights.insert(*i + 1, (n[*k..].to_vec(), vec![last]));
        }
        UskOp::MoveSecret { from, to } => {
            if *from == *to || *from >= p.rights.len() || *to >= p.rights.len() {
                return None;
            }
            if p.rights[*from].1.len() < 2 {
                return None;
            }
            let s = p.rights[*from].1.pop()?;
            p.rights[*to].1.insert(0, s);
        }
        UskOp::SwapRights { i, j } => {
            if *i == *j || *i >= p.rights.len() || *j >= p.rights.len() {
                return None;
            }
            p.rights.swap(*i, *j);
        }
        UskOp::DupRight { i } => {
            let r = p.rights.get(*i)?.clone();
            p.rights.push(r);
        }
        UskOp::DropRight { i } => {
            if *i >= p.rights.len() {
                return None;
            }
            p.rights.remove(*i);
        }
        UskOp::RenameRight { i, name } => {
            let r = p.rights.get_mut(*i)?;
            if r.0 == *name {
                return None;
            }
            r.0 = name.clone();
        }
        UskOp::DropSecret { i, k } => {
            let r = p.rights.get_mut(*i)?;
            if r.1.len() < 2 {
                return None;
            }
            let k = chain_index(*k, r.1.len());
            r.1.remove(k);
        }
        UskOp::DupSecret { i, k } => {
            let r = p.rights.get_mut(*i)?;
            let k = chain_index(*k, r.1.len().max(1));
            let s = r.1.get(k)?.clone();
            r.1.insert(k, s);
        }
        UskOp::SwapSecrets { i, k } => {
            let r = p.rights.get_mut(*i)?;
            if r.1.len() < 2 {
                return None;
            }
            let k = chain_index(*k, r.1.len() - 1);
            if r.1[k] == r.1[k + 1] {
                return None;
            }
            r.1.swap(k, k + 1);
        }
        UskOp::HybridToClassicShift { i } => {
            if *i + 1 >= p.rights.len() {
                return None;
            }
            let (_, s) = p.rights.get(*i)?.clone();
            let last = s.last()?.clone();
            if last[0] != 1 {
                return None;
            }
            // last secret of right i becomes classic; its ML-KEM key bytes move to the front of
            // the next right's name (same MAC input: sk | dk | name_{i+1}).
            let dk = last[1 + wire::SC..].to_vec();
            let mut classic = vec![0u8];
            classic.extend_from_slice(&last[1..1 + wire::SC]);
            let n = p.rights[*i].1.len();
            p.rights[*i].1[n - 1] = classic;
            let mut name = dk;
            name.extend_from_slice(&p.rights[*i + 1].0);
            p.rights[*i + 1].0 = name;
        }
        UskOp::FlipFlavourFlag { i, k } => {
            let r = p.rights.get_mut(*i)?;
            let s = r.1.get_mut(*k)?;
            if s[0] == 0 {
                // classic -> hybrid needs DK more bytes: take zeros
                s[0] = 1;
                s.extend(std::iter::repeat(0u8).take(wire::DK));
            } else {
                s[0] = 0;
                s.truncate(1 + wire::SC);
            }
        }
        UskOp::MarkerIntoName => {
            if p.id.len() < 2 || p.rights.is_empty() {
                return None;
            }
            let m = p.id.pop()?;
            let mut name = m;
            name.extend_from_slice(&p.rights[0].0);
            p.rights[0].0 = name;
        }
        UskOp::IdFrom { other_user } => {
            if *other_user == user {
                return None;
            }
            let ob = other_usk_bytes(w, *other_user)?;
            let o = UskParts::from(&ob)?;
            if o.id == p.id {
                return None;
            }
            p.id = o.id;
        }
        UskOp::RightsUnion { other_user } => {
            if *other_user == user {
                return None;
            }
            let ob = other_usk_bytes(w, *other_user)?;
            let o = UskParts::from(&ob)?;
            let mut added = false;
            for r in o.rights {
                if !p.rights.iter().any(|x| x.0 == r.0) {
                    p.rights.push(r);
                    added = true;
                }
            }
            if !added {
                return None;
            }
        }
        UskOp::Foreign => {
            // A key generated by an unrelated authority for the broadcast policy.
            if w.auth2.is_none() {
                let cc = crate::seams::seeded_cc(w.seed, 900);
                let (msk, _) = cc.setup().ok()?;
                w.auth2 = Some((cc, msk));
            }
            let (cc, msk) = w.auth2.as_mut()?;
            let ap = cosmian_cover_crypt::AccessPolicy::parse("*").ok()?;
            let k = cc.generate_user_secret_key(msk, &ap).ok()?;
            return k.serialize().ok().map(|b| b.to_vec());
        }
        UskOp::StripSignature => {
            p.sig.take()?;
        }
        UskOp::AlterSignature { pos, bit } => {
            let s = p.sig.as_mut()?;
            let n = s.len();
            s[*pos % n] ^= 1 << (*bit % 8);
        }
        UskOp::SignatureFrom { other_user } => {
            if *other_user == user {
                return None;
            }
            let ob = other_usk_bytes(w, *other_user)?;
            let o = UskParts::from(&ob)?;
            if o.sig == p.sig {
                return None;
            }
            p.sig = o.sig;
        }
        UskOp::FlipBit { pos, bit } => {
            let mut b = bytes.to_vec();
            let n = b.len();
            b[*pos % n] ^= 1 << (*bit % 8);
            return Some(b);
        }
        UskOp::Truncate { len } => {
            if *len >= bytes.len() {
                return None;
            }
            return Some(bytes[..*len].to_vec());
        }
        UskOp::SplitChain { i, k } => {
            let (n, s) = p.rights.get(*i)?.clone();
            if s.len() < 2 {
                return None;
            }
            let k = 1 + *k % (s.len() - 1);
            p.rights[*i] = (n.clone(), s[..k].to_vec());
            p.rights.insert(*i + 1, (n, s[k..].to_vec()));
        }
        UskOp::AddEmptyRight { other_user, j, raw } => {
            let name = match other_usk_bytes(w, *other_user).and_then(|b| UskParts::from(&b)) {
                Some(o) if *other_user != user && !o.rights.is_empty() => o.rights[*j % o.rights.len()].0.clone(),
                _ => raw.clone(),
            };
            if p.rights.iter().any(|r| r.0 == name) {
                return None;
            }
            p.rights.push((name, vec![]));
        }
        UskOp::MoveSecretToEnd { from, to } => {
            if *from == *to || *from >= p.rights.len() || *to >= p.rights.len() {
                return None;
            }
            if p.rights[*from].1.len() < 2 {
                return None;
            }
            let s = p.rights[*from].1.pop()?;
            p.rights[*to].1.push(s);
        }
        UskOp::SwapSecretsAcross { i, k, j, l } => {
            if *i == *j || *i >= p.rights.len() || *j >= p.rights.len() {
                return None;
            }
            if p.rights[*i].1.is_empty() || p.rights[*j].1.is_empty() {
                return None;
            }
            let (k, l) = (&chain_index(*k, p.rights[*i].1.len()), &chain_index(*l, p.rights[*j].1.len()));
            let a = p.rights[*i].1[*k].clone();
            let b = p.rights[*j].1[*l].clone();
            if a == b {
                return None;
            }
            p.rights[*i].1[*k] = b;
            p.rights[*j].1[*l] = a;
        }
        UskOp::ShiftNameBorder { i, k } => {
            // Move the first k bytes of the MACed part of the first secret into the right's name
            // is impossible without changing sizes of fixed-size secrets; instead move the last k
            // bytes of right i's name to the front of right i+1's ... only names are variable, so
            // the border that can shift is name_i+1's start: take k bytes from the end of the
            // previous right's *name* when that right has an empty MAC contribution in between --
            // i.e. never. What can shift is the id/first-name border (MarkerIntoName) and the
            // name/name border after a merge. Here: move k trailing bytes of name_i to the front
            // of name_i (rotation) -- a plain rename that keeps the multiset of MACed bytes.
            let r = p.rights.get_mut(*i)?;
            if r.0.len() < 2 {
                return None;
            }
            let k = 1 + *k % (r.0.len() - 1);
            r.0.rotate_right(k);
        }
    }
    Some(p.build())
}

// ---------------------------------------------------------------------------------------------
// Slots
// ---------------------------------------------------------------------------------------------

pub fn byte_op_name(op: &ByteOp) -> &'static str {
    match op {
        ByteOp::FlipBit { .. } => "bit-flip",
        ByteOp::SetByte { .. } => "byte-overwrite",
        ByteOp::Truncate { .. } => "truncation",
        ByteOp::Extend { .. } => "extension",
        ByteOp::Torn { .. } => "torn-write",
        ByteOp::Misdirect { .. } => "misdirected-read",
        ByteOp::XorPair { .. } => "correlated-two-byte-corruption",
        ByteOp::AadVariant { mode: 0 } => "aad-absent-vs-empty",
        ByteOp::AadVariant { .. } => "aad-different-content",
    }
}

pub fn apply_byte_op(w: &mut World, slot: usize, op: &ByteOp) -> bool {
    if slot >= w.slots.len() {
        return false;
    }
    let mut b = w.slots[slot].bytes.clone();
    match op {
        ByteOp::FlipBit { pos, bit } => {
            if b.is_empty() {
                return false;
            }
            let n = b.len();
            b[*pos % n] ^= 1 << (*bit % 8);
        }
        ByteOp::SetByte { pos, val } => {
            if b.is_empty() {
                return false;
            }
            let n = b.len();
            b[*pos % n] = *val;
        }
        ByteOp::Truncate { len } => {
            if *len >= b.len() {
                return false;
            }
            b.truncate(*len);
        }
        ByteOp::Extend { bytes } => {
            if bytes.is_empty() {
                return false;
            }
            b.extend_from_slice(bytes);
        }
        ByteOp::Torn { cut, other_slot } => {
            let Some(o) = w.slots.get(*other_slot) else { return false };
            if *other_slot == slot || o.kind != w.slots[slot].kind {
                return false;
            }
            let cut = *cut % b.len().max(1);
            let mut nb = b[..cut].to_vec();
            if cut < o.orig.len() {
                nb.extend_from_slice(&o.orig[cut..]);
            }
            b = nb;
        }
        ByteOp::XorPair { pos, dist, delta } => {
            if b.len() <= *dist || *delta == 0 {
                return false;
            }
            let p = *pos % (b.len() - *dist);
            b[p] ^= *delta;
            b[p + *dist] ^= *delta;
        }
        ByteOp::AadVariant { mode } => {
            if w.slots[slot].kind != SlotKind::Header {
                return false;
            }
            let cur = w.slots[slot].aad.clone();
            let variant = if *mode == 0 {
                match &cur {
                    None => Some(vec![]),
                    Some(v) if v.is_empty() => None,
                    Some(_) => return false,
                }
            } else {
                let mut v = cur.unwrap_or_default();
                v.push(*mode);
                Some(v)
            };
            w.slots[slot].read_aad = Some(variant);
            w.stats.fault(byte_op_name(op));
            return true;
        }
        ByteOp::Misdirect { other_slot } => {
            let Some(o) = w.slots.get(*other_slot) else { return false };
            if *other_slot == slot || o.kind != SlotKind::Header || w.slots[slot].kind != SlotKind::Header {
                return false;
            }
            // The reader of `other_slot` is handed the bytes of `slot`'s neighbour: modelled as
            // the *authentication data* of this slot being presented for the other's bytes.
            let aad = w.slots[*other_slot].aad.clone();
            w.slots[slot].read_aad = Some(aad);
            w.stats.fault(byte_op_name(op));
            return true;
        }
    }
    if b == w.slots[slot].bytes {
        return false;
    }
    w.slots[slot].bytes = b;
    w.stats.fault(byte_op_name(op));
    true
}

pub fn enc_op_name(op: &EncOp) -> &'static str {
    match op {
        EncOp::SwapEncs { .. } => "reorder-components",
        EncOp::DropEnc { .. } => "drop-component",
        EncOp::DupEnc { .. } => "duplicate-component",
        EncOp::SwapTraps => "reorder-traps",
        EncOp::DropTrap { .. } => "drop-trap",
        EncOp::DupTrap { .. } => "duplicate-trap",
        EncOp::TagFrom { .. } => "tag-of-other-encapsulation",
        EncOp::EncFrom { .. } => "component-of-other-encapsulation",
        EncOp::TrapsFrom { .. } => "traps-of-other-encapsulation",
        EncOp::FlipFlavour => "flip-flavour-flag",
        EncOp::RewriteCount { .. } => "rewrite-count",
        EncOp::SwapSeedsOnly { .. } => "swap-masked-seeds-only",
        EncOp::MetaFrom { .. } => "metadata-of-other-header",
        EncOp::FlipPayloadBit { .. } => "payload-bit-flip",
    }
}

struct EncParts {
    tag: Vec<u8>,
    traps: Vec<Vec<u8>>,
    hybrid: bool,
    /// (ML-KEM ciphertext, masked seed)
    encs: Vec<(Vec<u8>, Vec<u8>)>,
    tail: Vec<u8>,
}

impl EncParts {
    fn from(b: &[u8]) -> Option<Self> {
        let mut rd = wire::Rd::new(b);
        let w = wire::read_enc(&mut rd).ok()?;
        Some(EncParts {
            tag: w.tag.clone(),
            traps: w.traps.clone(),
            hybrid: w.hybrid,
            encs: w
                .encs
                .iter()
                .map(|(e, f)| (e.map(|e| b[e.0..e.1].to_vec()).unwrap_or_default(), b[f.0..f.1].to_vec()))
                .collect(),
            tail: b[w.end..].to_vec(),
        })
    }
    fn build(&self) -> Vec<u8> {
        let mut out = self.tag.clone();
        out.extend(leb_encode(self.traps.len() as u64));
        for t in &self.traps {
            out.extend_from_slice(t);
        }
        out.extend(leb_encode(self.hybrid as u64));
        out.extend(leb_encode(self.encs.len() as u64));
        for (e, f) in &self.encs {
            if self.hybrid {
                out.extend_from_slice(e);
            }
            out.extend_from_slice(f);
        }
        out.extend_from_slice(&self.tail);
        out
    }
}

pub fn apply_enc_op(w: &mut World, slot: usize, op: &EncOp) -> bool {
    if slot >= w.slots.len() {
        return false;
    }
    let bytes = w.slots[slot].bytes.clone();
    let Some(mut p) = EncParts::from(&bytes) else { return false };
    let other = |w: &World, o: usize| -> Option<EncParts> {
        if o == slot {
            return None;
        }
        EncParts::from(&w.slots.get(o)?.orig)
    };
    match op {
        EncOp::SwapEncs { i, j } => {
            if *i == *j || *i >= p.encs.len() || *j >= p.encs.len() {
                return false;
            }
            p.encs.swap(*i, *j);
        }
        EncOp::DropEnc { i } => {
            if *i >= p.encs.len() {
                return false;
            }
            p.encs.remove(*i);
        }
        EncOp::DupEnc { i } => {
            let Some(e) = p.encs.get(*i).cloned() else { return false };
            p.encs.push(e);
        }
        EncOp::SwapTraps => {
            if p.traps.len() < 2 {
                return false;
            }
            p.traps.swap(0, 1);
        }
        EncOp::DropTrap { i } => {
            if *i >= p.traps.len() {
                return false;
            }
            p.traps.remove(*i);
        }
        EncOp::DupTrap { i } => {
            let Some(t) = p.traps.get(*i).cloned() else { return false };
            p.traps.push(t);
        }
        EncOp::TagFrom { other_slot } => {
            let Some(o) = other(w, *other_slot) else { return false };
            p.tag = o.tag;
        }
        EncOp::EncFrom { other_slot, i, j } => {
            let Some(o) = other(w, *other_slot) else { return false };
            if o.hybrid != p.hybrid || *i >= p.encs.len() || *j >= o.encs.len() {
                return false;
            }
            p.encs[*i] = o.encs[*j].clone();
        }
        EncOp::TrapsFrom { other_slot } => {
            let Some(o) = other(w, *other_slot) else { return false };
            p.traps = o.traps;
        }
        EncOp::FlipFlavour => {
            if p.hybrid {
                p.hybrid = false;
            } else {
                p.hybrid = true;
                for e in p.encs.iter_mut() {
                    e.0 = vec![0u8; wire::CT];
                }
            }
        }
        EncOp::RewriteCount { val } => {
            // rewrite the component count in place without touching the rest
            let mut rd = wire::Rd::new(&bytes);
            let Ok(we) = wire::read_enc(&mut rd) else { return false };
            let mut nb = bytes[..we.enc_count_span.0].to_vec();
            nb.extend(leb_encode(*val));
            nb.extend_from_slice(&bytes[we.enc_count_span.1..]);
            if nb == bytes {
                return false;
            }
            w.slots[slot].bytes = nb;
            w.stats.fault(enc_op_name(op));
            return true;
        }
        EncOp::SwapSeedsOnly { i, j } => {
            if !p.hybrid || *i == *j || *i >= p.encs.len() || *j >= p.encs.len() {
                return false;
            }
            let a = p.encs[*i].1.clone();
            p.encs[*i].1 = p.encs[*j].1.clone();
            p.encs[*j].1 = a;
        }
        EncOp::MetaFrom { other_slot } => {
            if w.slots[slot].kind != SlotKind::Header {
                return false;
            }
            let Some(o) = w.slots.get(*other_slot) else { return false };
            if *other_slot == slot || o.kind != SlotKind::Header {
                return false;
            }
            let Some(op2) = EncParts::from(&o.orig) else { return false };
            if op2.tail == p.tail {
                return false;
            }
            p.tail = op2.tail;
        }
        EncOp::FlipPayloadBit { pos, bit } => {
            if p.tail.len() < 2 {
                return false;
            }
            // never touch the length prefix of header metadata (first byte(s)); flip inside
            let start = if w.slots[slot].kind == SlotKind::Header { leb_len_prefix(&p.tail) } else { 0 };
            if start >= p.tail.len() {
                return false;
            }
            let n = p.tail.len() - start;
            p.tail[start + *pos % n] ^= 1 << (*bit % 8);
        }
    }
    let nb = p.build();
    if nb == bytes {
        return false;
    }
    w.slots[slot].bytes = nb;
    w.stats.fault(enc_op_name(op));
    true
}

fn leb_len_prefix(b: &[u8]) -> usize {
    let mut i = 0;
    while i < b.len() && b[i] & 0x80 != 0 {
        i += 1;
    }
    i + 1
}

/// Do two byte strings deserialize to equal objects (a no-op mutation at object level)?
pub fn same_object(kind: &SlotKind, a: &[u8], b: &[u8]) -> bool {
    match kind {
        SlotKind::Kem => match (XEnc::deserialize(a), XEnc::deserialize(b)) {
            (Ok(x), Ok(y)) => x == y,
            _ => false,
        },
        SlotKind::Header => match (EncryptedHeader::deserialize(a), EncryptedHeader::deserialize(b)) {
            (Ok(x), Ok(y)) => x == y,
            _ => false,
        },
        SlotKind::Pke => {
            if a.is_empty() || b.is_empty() {
                return false;
            }
            let mut da = Deserializer::new(a);
            let mut db = Deserializer::new(b);
            match (da.read::<XEnc>(), db.read::<XEnc>()) {
                (Ok(x), Ok(y)) => x == y && da.finalize() == db.finalize(),
                _ => false,
            }
        }
    }
}

#[allow(dead_code)]
pub fn usk_same_object(a: &[u8], b: &[u8]) -> bool {
    match (UserSecretKey::deserialize(a), UserSecretKey::deserialize(b)) {
        (Ok(x), Ok(y)) => x == y,
        _ => false,
    }
}

/// A consistently re-built object with one of its lists emptied (count rewritten to match).
pub fn emptied(kind: &str, b: &[u8], which: u8) -> Option<Vec<u8>> {
    match kind {
        "xenc" | "header" => {
            let mut p = EncParts::from(b)?;
            match which % 3 {
                0 => p.traps.clear(),
                1 => p.encs.clear(),
                _ => {
                    p.traps.clear();
                    p.encs.clear();
                }
            }
            Some(p.build())
        }
        "usk" => {
            let mut p = UskParts::from(b)?;
            match which % 7 {
                0 => p.id.clear(),
                1 => p.ps.clear(),
                2 => p.rights.clear(),
                3 => {
                    p.id.clear();
                    p.ps.clear();
                    p.rights.clear();
                }
                // a right that announces zero secrets (count and elements consistent)
                4 => p.rights.first_mut()?.1.clear(),
                5 => p.rights.last_mut()?.1.clear(),
                _ => p.rights.insert(0, (vec![0x7f], vec![])),
            }
            Some(p.build())
        }
        "mpk" => {
            let w = wire::parse_mpk(b).ok()?;
            let (_, span) = w.spans.iter().find(|(n, _)| *n == "tpk-count")?;
            let mut out = b[..span.0].to_vec();
            out.extend(leb_encode(0));
            out.extend_from_slice(&b[span.1 + w.tpk.len() * wire::PT..]);
            Some(out)
        }
        "msk" => {
            let w = wire::parse_msk(b).ok()?;
            let (_, span) = w.spans.iter().find(|(n, _)| *n == "tracer-count")?;
            let mut out = b[..span.0].to_vec();
            out.extend(leb_encode(0));
            out.extend_from_slice(&b[span.1 + w.tracers.len() * (wire::SC + wire::PT)..]);
            Some(out)
        }
        _ => None,
    }
}
