//! Minimal 256-bit modular arithmetic, independent of the code under test, used to check the
//! tracing relation sum(a_i * t_i) = s on scalars read from serialized keys.

pub type U256 = [u64; 4]; // little-endian limbs

#[cfg(feature = "cfg-a")]
/// Order of the Ristretto / Curve25519 prime-order group.
pub const ORDER: U256 = [
    0x5812_631a_5cf5_d3ed,
    0x14de_f9de_a2f7_9cd6,
    0x0000_0000_0000_0000,
    0x1000_0000_0000_0000,
];

#[cfg(feature = "cfg-b")]
/// Order of P-256.
pub const ORDER: U256 = [
    0xf3b9_cac2_fc63_2551,
    0xbce6_faad_a717_9e84,
    0xffff_ffff_ffff_ffff,
    0xffff_ffff_0000_0000,
];

fn geq(a: &U256, b: &U256) -> bool {
    for i in (0..4).rev() {
        if a[i] != b[i] {
            return a[i] > b[i];
        }
    }
    true
}

fn sub(a: &U256, b: &U256) -> U256 {
    let mut out = [0u64; 4];
    let mut borrow = 0u64;
    for i in 0..4 {
        let (d1, b1) = a[i].overflowing_sub(b[i]);
        let (d2, b2) = d1.overflowing_sub(borrow);
        out[i] = d2;
        borrow = (b1 as u64) + (b2 as u64);
    }
    out
}

pub fn addmod(a: &U256, b: &U256, m: &U256) -> U256 {
    let mut out = [0u64; 4];
    let mut carry = 0u64;
    for i in 0..4 {
        let (s1, c1) = a[i].overflowing_add(b[i]);
        let (s2, c2) = s1.overflowing_add(carry);
        out[i] = s2;
        carry = (c1 as u64) + (c2 as u64);
    }
    if carry > 0 || geq(&out, m) {
        // (a + b) < 2m, so one subtraction suffices; with carry the wrapped subtraction is right.
        out = sub(&out, m);
    }
    out
}

pub fn reduce(a: &U256, m: &U256) -> U256 {
    let mut x = *a;
    while geq(&x, m) {
        x = sub(&x, m);
    }
    x
}

pub fn mulmod(a: &U256, b: &U256, m: &U256) -> U256 {
    let a = reduce(a, m);
    let mut acc = [0u64; 4];
    for i in (0..256).rev() {
        acc = addmod(&acc, &acc, m);
        if (b[i / 64] >> (i % 64)) & 1 == 1 {
            acc = addmod(&acc, &a, m);
        }
    }
    acc
}

/// Decodes a serialized scalar of the active configuration.
pub fn scalar_from_bytes(b: &[u8]) -> Option<U256> {
    if b.len() != 32 {
        return None;
    }
    let mut out = [0u64; 4];
    #[cfg(feature = "cfg-a")]
    {
        for i in 0..4 {
            out[i] = u64::from_le_bytes(b[8 * i..8 * i + 8].try_into().ok()?);
        }
    }
    #[cfg(feature = "cfg-b")]
    {
        for i in 0..4 {
            out[3 - i] = u64::from_be_bytes(b[8 * i..8 * i + 8].try_into().ok()?);
        }
    }
    Some(out)
}

/// sum(a_i * t_i) mod ORDER == s ?
pub fn tracing_relation(markers: &[Vec<u8>], tracers: &[Vec<u8>], s: &[u8]) -> Option<bool> {
    if markers.len() != tracers.len() {
        return Some(false);
    }
    let mut acc = [0u64; 4];
    for (a, t) in markers.iter().zip(tracers) {
        let a = scalar_from_bytes(a)?;
        let t = scalar_from_bytes(t)?;
        acc = addmod(&acc, &mulmod(&a, &t, &ORDER), &ORDER);
    }
    let s = reduce(&scalar_from_bytes(s)?, &ORDER);
    Some(acc == s)
}
