//! Explicit events of the world simulator. A run is a list of events; replaying a list is a pure
//! function of the list, the recorded seeds and the code under test.

use serde::{Deserialize, Serialize};

use crate::model::Pol;

#[derive(Clone, Debug, PartialEq, Eq, Serialize, Deserialize)]
pub struct PolArg {
    pub ast: Pol,
    pub text: String,
}

impl PolArg {
    pub fn new(ast: Pol, style: u64) -> Self {
        let text = ast.print(style);
        Self { ast, text }
    }
}

#[derive(Clone, Debug, PartialEq, Eq, Serialize, Deserialize)]
pub enum EncKind {
    Kem,
    Pke { len: usize },
    Header { meta: Option<usize>, aad: Option<usize> },
}

#[derive(Clone, Debug, PartialEq, Eq, Serialize, Deserialize)]
pub enum ReloadTarget {
    Msk,
    AuthorityMpk,
    EncryptorMpk(usize),
    Usk(usize),
    Slot(usize),
    Structure,
    Cleartext(usize),
}

/// Byte-level storage / channel faults.
#[derive(Clone, Debug, PartialEq, Eq, Serialize, Deserialize)]
pub enum ByteOp {
    FlipBit { pos: usize, bit: u8 },
    SetByte { pos: usize, val: u8 },
    Truncate { len: usize },
    Extend { bytes: Vec<u8> },
    /// Prefix of the new version followed by the suffix of another object (torn write).
    Torn { cut: usize, other_slot: usize },
    /// The read returns the bytes of another slot.
    Misdirect { other_slot: usize },
    /// The same delta is xored into two bytes `dist` apart (correlated corruption).
    XorPair { pos: usize, dist: usize, delta: u8 },
    /// The reader presents a variant of the authentication data: 0 = absent <-> empty (same
    /// content, must still open), otherwise different content (must be refused).
    AadVariant { mode: u8 },
}

/// Structure-aware corruption of an encapsulation (component level).
#[derive(Clone, Debug, PartialEq, Eq, Serialize, Deserialize)]
pub enum EncOp {
    SwapEncs { i: usize, j: usize },
    DropEnc { i: usize },
    DupEnc { i: usize },
    SwapTraps,
    DropTrap { i: usize },
    DupTrap { i: usize },
    /// Take the tag of another slot.
    TagFrom { other_slot: usize },
    /// Take component i of another slot.
    EncFrom { other_slot: usize, i: usize, j: usize },
    /// Take the traps of another slot.
    TrapsFrom { other_slot: usize },
    FlipFlavour,
    RewriteCount { val: u64 },
    /// Swap masked seeds only (keep ML-KEM ciphertexts in place) -- hybrid only.
    SwapSeedsOnly { i: usize, j: usize },
    /// Replace header metadata by that of another header.
    MetaFrom { other_slot: usize },
    /// Flip a bit inside the encrypted metadata / DEM ciphertext.
    FlipPayloadBit { pos: usize, bit: u8 },
}

/// Structure-aware re-framing of a serialized user key.
#[derive(Clone, Debug, PartialEq, Eq, Serialize, Deserialize)]
pub enum UskOp {
    /// Merge right i and right i+1 into one right named name_i || secrets_i || name_{i+1}.
    MergeAdjacent { i: usize },
    /// Split right i: first `k` bytes of the name stay, rest of name + ... becomes next.
    SplitName { i: usize, k: usize },
    MoveSecret { from: usize, to: usize },
    SwapRights { i: usize, j: usize },
    DupRight { i: usize },
    DropRight { i: usize },
    RenameRight { i: usize, name: Vec<u8> },
    DropSecret { i: usize, k: usize },
    DupSecret { i: usize, k: usize },
    SwapSecrets { i: usize, k: usize },
    /// Hybridized -> Classic with the ML-KEM key shifted into the next right's name.
    HybridToClassicShift { i: usize },
    FlipFlavourFlag { i: usize, k: usize },
    /// Move one marker from the id into the first right's name (shifts framing).
    MarkerIntoName,
    /// Id of key A with the rights of key B (B = key of another user).
    IdFrom { other_user: usize },
    RightsUnion { other_user: usize },
    /// A key issued by the second, unrelated authority.
    Foreign,
    StripSignature,
    AlterSignature { pos: usize, bit: u8 },
    SignatureFrom { other_user: usize },
    FlipBit { pos: usize, bit: u8 },
    Truncate { len: usize },
    /// Split the chain of right i after its k-th secret into two rights with the same name.
    SplitChain { i: usize, k: usize },
    /// Add a right that announces zero secrets (name taken from another user's key, or raw).
    AddEmptyRight { other_user: usize, j: usize, raw: Vec<u8> },
    /// Move the oldest secret of right `from` to the end of the chain of right `to`.
    MoveSecretToEnd { from: usize, to: usize },
    /// Exchange secret k of right i with secret l of right j.
    SwapSecretsAcross { i: usize, k: usize, j: usize, l: usize },
    /// Move the last `k` bytes of right i's name to the front of ... (shift name/secret border)
    ShiftNameBorder { i: usize, k: usize },
}

#[derive(Clone, Debug, PartialEq, Eq, Serialize, Deserialize)]
pub enum HostileTarget {
    Slot(usize),
    Usk(usize),
    Msk,
    Mpk,
    Structure,
    Random { len: usize, seed: u64 },
}

#[derive(Clone, Debug, PartialEq, Eq, Serialize, Deserialize)]
pub enum Parser {
    XEnc,
    Header,
    Usk,
    Mpk,
    Msk,
    Structure,
}

#[derive(Clone, Debug, PartialEq, Eq, Serialize, Deserialize)]
pub enum HostileMut {
    None,
    Truncate { len: usize },
    SetByte { pos: usize, val: u8 },
    FlipBit { pos: usize, bit: u8 },
    /// Replace the k-th count/length field (as located by the wire reader) by `val`.
    Field { k: usize, val: u64 },
    Extend { bytes: Vec<u8> },
    /// Consistent rewrite: some list of the object emptied together with its count.
    Empty { which: u8 },
    /// The k-th count/length field re-encoded as a padded (non-canonical) LEB128 of
    /// `original value + delta`, with `pad` redundant continuation bytes.
    FieldPadded { k: usize, delta: u64, pad: u8 },
}

#[derive(Clone, Debug, PartialEq, Eq, Serialize, Deserialize)]
pub enum Ev {
    AddDim { name: String, hierarchy: bool },
    DelDim { name: String },
    AddAttr { dim: String, name: String, hybrid: bool, after: Option<String> },
    DelAttr { dim: String, name: String },
    RenameAttr { dim: String, name: String, new: String },
    DisableAttr { dim: String, name: String },
    Update,
    Rekey { pol: PolArg },
    Prune { pol: PolArg },
    DeriveMpk,
    Keygen { user: usize, pol: PolArg },
    /// One entry per encryptor that receives the update: (encryptor, delay, duplicate).
    Publish { to: Vec<(usize, u32, bool)> },
    /// Deliver the next due message. Reply parameters apply if it is a refresh request.
    Deliver { reply_delay: u32, reply_dup: bool, reply_drop: bool },
    Encrypt { enc: usize, pol: PolArg, kind: EncKind, repeat: u32 },
    Read { user: usize, slot: usize },
    RequestRefresh { user: usize, keep: bool, delay: u32, dup: bool, tamper: Option<UskOp> },
    Reload { what: ReloadTarget },
    Backup,
    Restore { idx: usize },
    /// Re-encapsulate slot with the authority's current MPK, or with encryptor's (stale) copy.
    Recaps { slot: usize, stale_from: Option<usize> },
    TamperSlot { slot: usize, op: ByteOp },
    TamperEnc { slot: usize, op: EncOp },
    Hostile { target: HostileTarget, mutation: HostileMut, parser: Parser },
    /// Decapsulate every stored encapsulation with every current user key.
    Audit,
    /// Read and use the golden objects written by the pinned release (C13).
    Golden,
    /// Enumerate a fault sub-space on one stored object: every `stride`-th bit flipped /
    /// every truncation length / every single-byte overwrite, each read by one authorized
    /// and one unauthorized key.
    SweepSlot { slot: usize, mode: SweepMode, stride: usize },
    /// Enumerate every re-framing operator at every applicable position on one user's key.
    SweepUsk { user: usize },
    /// Enumerate hostile rewrites of one object: every truncation, every byte xor {0x01,0x80,0xff},
    /// every count/length field x every boundary value.
    SweepHostile { target: HostileTarget, parser: Parser, stride: usize },
    /// Doubling experiment on a parser: a valid structure of n and of 4n attributes is
    /// deserialized; the thread CPU time must grow about linearly (C14: time proportional to input).
    ScaleProbe { n: usize },
    /// `n` add/delete cycles of a scratch attribute directly on the structure: pushes the
    /// attribute-id counter past encoding boundaries (127, 16383, 65535).
    ChurnIds { dim: String, n: usize },
    /// `n` user keys issued in a row for the same policy (many registered identifiers).
    KeygenBurst { user: usize, pol: PolArg, n: usize },
    /// Two freshly created library instances (`Covercrypt::default()`, seeded by the library from
    /// the entropy source and not re-seeded by the harness) each issue a key on the master key
    /// and encapsulate: identifiers, secrets and encapsulations must all be new.
    FreshInstances { user: usize, enc: usize, kpol: PolArg, epol: PolArg },
    /// The master key comes back with one more tracer (higher tracing level).
    RaiseTracing,
    /// The attribute-id counter of the structure jumps forward to `to`; with `back = Some(b)`, to
    /// `to + current - b`, so that the next identifiers are congruent modulo `to` (a power of
    /// two) to those of the `b` attributes created last.
    IdCounterJump { to: u64, #[serde(default)] back: Option<u8> },
    /// C11, "ML-KEM material bound into the secret": the user's key with the ML-KEM
    /// decapsulation key of the secret that opens `slot` replaced by another one must no
    /// longer open a hybridized encapsulation.
    PqBinding { user: usize, slot: usize },
    /// `n` encapsulations made from another OS thread on the encryptor's instance (C16: freshness
    /// across threads, without any race: the threads run one after the other).
    EncryptOtherThread { enc: usize, pol: PolArg, n: u32 },
}

#[derive(Clone, Debug, PartialEq, Eq, Serialize, Deserialize)]
pub enum SweepMode {
    BitFlips,
    Truncations,
    ByteOverwrites,
    /// The same bit flipped in two bytes 1, 8, 16 or 32 apart.
    XorPairs,
}

impl Ev {
    pub fn kind(&self) -> &'static str {
        match self {
            Ev::AddDim { .. } => "AddDim",
            Ev::DelDim { .. } => "DelDim",
            Ev::AddAttr { .. } => "AddAttr",
            Ev::DelAttr { .. } => "DelAttr",
            Ev::RenameAttr { .. } => "RenameAttr",
            Ev::DisableAttr { .. } => "DisableAttr",
            Ev::Update => "Update",
            Ev::Rekey { .. } => "Rekey",
            Ev::Prune { .. } => "Prune",
            Ev::DeriveMpk => "DeriveMpk",
            Ev::Keygen { .. } => "Keygen",
            Ev::Publish { .. } => "Publish",
            Ev::Deliver { .. } => "Deliver",
            Ev::Encrypt { .. } => "Encrypt",
            Ev::Read { .. } => "Read",
            Ev::RequestRefresh { .. } => "RequestRefresh",
            Ev::Reload { .. } => "Reload",
            Ev::Backup => "Backup",
            Ev::Restore { .. } => "Restore",
            Ev::Recaps { .. } => "Recaps",
            Ev::TamperSlot { .. } => "TamperSlot",
            Ev::TamperEnc { .. } => "TamperEnc",
            Ev::Hostile { .. } => "Hostile",
            Ev::Audit => "Audit",
            Ev::Golden => "Golden",
            Ev::SweepSlot { .. } => "SweepSlot",
            Ev::SweepUsk { .. } => "SweepUsk",
            Ev::SweepHostile { .. } => "SweepHostile",
            Ev::ScaleProbe { .. } => "ScaleProbe",
            Ev::ChurnIds { .. } => "ChurnIds",
            Ev::KeygenBurst { .. } => "KeygenBurst",
            Ev::RaiseTracing => "RaiseTracing",
            Ev::FreshInstances { .. } => "FreshInstances",
            Ev::IdCounterJump { .. } => "IdCounterJump",
            Ev::PqBinding { .. } => "PqBinding",
            Ev::EncryptOtherThread { .. } => "EncryptOtherThread",
        }
    }
}
