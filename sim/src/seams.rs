//! The seams that make one integer decide a whole execution.
//!
//! 1. OS entropy / `RandomState` hash keys: std obtains the per-thread SipHash keys through the
//!    *weak* `getrandom` libc symbol; defining the symbol in this binary interposes it. When the
//!    current thread has a simulation seed installed, bytes come from a SplitMix64 stream keyed by
//!    that seed; otherwise the real system call is made.
//! 2. The `Covercrypt` instance generator: replaced through the public `Covercrypt::rng()`
//!    accessor by a ChaCha generator seeded from the run seed.
//! 3. Every simulated run executes in a fresh thread (so the per-thread hash keys are re-drawn
//!    from the seed) under `catch_unwind`.

use std::cell::Cell;
use std::panic::{catch_unwind, AssertUnwindSafe};

use cosmian_cover_crypt::api::Covercrypt;
use cosmian_crypto_core::{reexport::rand_core::SeedableRng, CsRng};

use crate::rng::{mix, splitmix};

thread_local! {
    static SIM_ENTROPY: Cell<Option<u64>> = const { Cell::new(None) };
    static ENTROPY_DRAWS: Cell<u64> = const { Cell::new(0) };
    static PANIC_INFO: Cell<Option<String>> = const { Cell::new(None) };
}

/// Interposes libc's `getrandom`. Never allocates, never logs.
///
/// # Safety
/// `buf` must be valid for `len` bytes (the libc contract).
#[no_mangle]
pub unsafe extern "C" fn getrandom(buf: *mut u8, len: usize, flags: u32) -> isize {
    let state = SIM_ENTROPY.try_with(|s| s.get()).ok().flatten();
    match state {
        Some(mut x) => {
            let mut i = 0;
            while i < len {
                let w = splitmix(&mut x).to_le_bytes();
                let mut k = 0;
                while k < 8 && i < len {
                    *buf.add(i) = w[k];
                    i += 1;
                    k += 1;
                }
            }
            let _ = SIM_ENTROPY.try_with(|s| s.set(Some(x)));
            let _ = ENTROPY_DRAWS.try_with(|c| c.set(c.get() + 1));
            len as isize
        }
        None => raw_syscall(libc::SYS_getrandom, buf as usize, len, flags as usize, 0, 0, 0) as isize,
    }
}

/// The kernel entry itself (x86-64 Linux), with libc's convention for errors.
unsafe fn raw_syscall(num: libc::c_long, a1: usize, a2: usize, a3: usize, a4: usize, a5: usize, a6: usize) -> libc::c_long {
    let ret: isize;
    core::arch::asm!(
        "syscall",
        inlateout("rax") num as isize => ret,
        in("rdi") a1,
        in("rsi") a2,
        in("rdx") a3,
        in("r10") a4,
        in("r8") a5,
        in("r9") a6,
        lateout("rcx") _,
        lateout("r11") _,
        options(nostack)
    );
    if (-4095..0).contains(&ret) {
        *libc::__errno_location() = (-ret) as i32;
        -1
    } else {
        ret as libc::c_long
    }
}

/// Interposes libc's `syscall`: the `getrandom` crate (behind `CsRng::from_entropy`, hence behind
/// `Covercrypt::default()`) asks the kernel through `syscall(SYS_getrandom, ..)` rather than
/// through the `getrandom` function, and a library instance that seeds *itself* must still get
/// its seed from the run's entropy stream. Every other call is passed to the kernel unchanged
/// (on x86-64 a variadic C function receives its arguments in the same registers).
///
/// # Safety
/// Same contract as libc's `syscall`.
#[cfg(all(target_arch = "x86_64", target_os = "linux"))]
#[no_mangle]
pub unsafe extern "C" fn syscall(num: libc::c_long, a1: usize, a2: usize, a3: usize, a4: usize, a5: usize, a6: usize) -> libc::c_long {
    if num == libc::SYS_getrandom && SIM_ENTROPY.try_with(|s| s.get()).ok().flatten().is_some() {
        return getrandom(a1 as *mut u8, a2, a3 as u32) as libc::c_long;
    }
    raw_syscall(num, a1, a2, a3, a4, a5, a6)
}

/// Installs a simulation entropy seed in the current thread (for helper threads of a run).
pub fn install_thread_seed(seed: u64) {
    SIM_ENTROPY.with(|s| s.set(Some(mix(seed, 0x5EED_4A54))));
}

pub fn entropy_draws() -> u64 {
    ENTROPY_DRAWS.with(|c| c.get())
}

/// Builds a `Covercrypt` instance whose generator is seeded from `(run_seed, instance)`.
pub fn seeded_cc(run_seed: u64, instance: u64) -> Covercrypt {
    let cc = Covercrypt::default();
    let mut seed = [0u8; 32];
    let mut x = mix(run_seed, 0xC0DE_0000 + instance);
    for chunk in seed.chunks_mut(8) {
        chunk.copy_from_slice(&splitmix(&mut x).to_le_bytes());
    }
    *cc.rng() = CsRng::from_seed(seed);
    cc
}

pub fn install_panic_hook() {
    std::panic::set_hook(Box::new(|info| {
        let loc = info
            .location()
            .map(|l| format!("{}:{}", l.file(), l.line()))
            .unwrap_or_else(|| "?".to_string());
        let msg = if let Some(s) = info.payload().downcast_ref::<&str>() {
            (*s).to_string()
        } else if let Some(s) = info.payload().downcast_ref::<String>() {
            s.clone()
        } else {
            "<non-string panic>".to_string()
        };
        let _ = PANIC_INFO.try_with(|p| p.set(Some(format!("{loc}: {msg}"))));
    }));
}

pub fn take_panic_info() -> Option<String> {
    PANIC_INFO.with(|p| p.take())
}

/// Outcome of a closure run inside a simulation thread.
pub enum SimOutcome<T> {
    Done(T),
    Panicked(String),
}

/// Runs `f` in a fresh thread whose entropy (hence every `RandomState`) derives from `seed`.
pub fn run_in_sim_thread<T: Send + 'static>(
    seed: u64,
    f: impl FnOnce() -> T + Send + 'static,
) -> SimOutcome<T> {
    let handle = std::thread::Builder::new()
        .stack_size(64 << 20)
        .spawn(move || {
            SIM_ENTROPY.with(|s| s.set(Some(mix(seed, 0x5EED_4A54))));
            let r = catch_unwind(AssertUnwindSafe(f));
            match r {
                Ok(v) => SimOutcome::Done(v),
                Err(_) => SimOutcome::Panicked(
                    take_panic_info().unwrap_or_else(|| "panic (no info)".to_string()),
                ),
            }
        })
        .expect("spawn sim thread");
    match handle.join() {
        Ok(o) => o,
        Err(_) => SimOutcome::Panicked("sim thread died".to_string()),
    }
}

/// Catches a panic in one SUT call and reports the panic site.
pub fn guard<T>(f: impl FnOnce() -> T) -> Result<T, String> {
    match catch_unwind(AssertUnwindSafe(f)) {
        Ok(v) => Ok(v),
        Err(_) => Err(take_panic_info().unwrap_or_else(|| "panic (no info)".to_string())),
    }
}
