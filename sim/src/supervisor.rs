//! Supervisor: forks worker processes over disjoint seed sets, enforces the per-run watchdog,
//! attributes abnormal exits to the seed that was running, de-duplicates violations by
//! signature, records + minimises + re-verifies a replay file per new signature, consults the
//! known-findings file, and writes the evidence file.

use std::collections::{BTreeMap, BTreeSet, HashSet};
use std::io::{BufRead, BufReader};
use std::path::{Path, PathBuf};
use std::process::{Child, Command, Stdio};
use std::sync::mpsc;
use std::time::{Duration, Instant};

use serde_json::json;

use crate::events::Ev;
use crate::run::{RunResult, Trace, Violation};
use crate::wire;

/// Root of the verification tree (the check script exports VERIF_ROOT; default /verif).
pub fn verif_root() -> String {
    std::env::var("VERIF_ROOT").unwrap_or_else(|_| "/verif".to_string())
}

enum WMsg {
    Begin(usize, u64),
    End(usize, Box<RunResult>),
    Exit(usize, Option<i32>, Option<i32>, String), // worker, code, signal, stderr tail
}

struct WorkerState {
    child: Child,
    running: Option<(u64, Instant)>,
    next_index: u64, // index (in this worker's sequence) of the next seed not yet finished
    done: bool,
}

fn exe() -> PathBuf {
    std::env::current_exe().expect("current_exe")
}

fn spawn_worker(id: usize, prop: &str, tier: &str, first: u64, count: u64, step: u64, tx: mpsc::Sender<WMsg>) -> Child {
    let mut child = Command::new(exe())
        .args(["worker", prop, tier, &first.to_string(), &count.to_string(), &step.to_string()])
        .stdout(Stdio::piped())
        .stderr(Stdio::piped())
        .spawn()
        .expect("spawn worker");
    let out = child.stdout.take().unwrap();
    let err = child.stderr.take().unwrap();
    let tx2 = tx.clone();
    std::thread::spawn(move || {
        let errh = std::thread::spawn(move || {
            let mut tail = String::new();
            for l in BufReader::new(err).lines().map_while(Result::ok) {
                tail.push_str(&l);
                tail.push('\n');
                if tail.len() > 4000 {
                    tail = tail[tail.len() - 2000..].to_string();
                }
            }
            tail
        });
        for l in BufReader::new(out).lines().map_while(Result::ok) {
            if let Some(s) = l.strip_prefix("BEGIN ") {
                if let Ok(seed) = s.trim().parse() {
                    let _ = tx2.send(WMsg::Begin(id, seed));
                }
            } else if let Some(s) = l.strip_prefix("END ") {
                if let Ok(r) = serde_json::from_str::<RunResult>(s) {
                    let _ = tx2.send(WMsg::End(id, Box::new(r)));
                }
            }
        }
        let tail = errh.join().unwrap_or_default();
        let _ = tx2.send(WMsg::Exit(id, None, None, tail));
    });
    child
}

#[derive(Default)]
struct Agg {
    runs: u64,
    events: u64,
    nontrivial_fps: HashSet<u64>,
    all_fps: HashSet<u64>,
    states: HashSet<u64>,
    trigrams: HashSet<u64>,
    checks: BTreeMap<String, u64>,
    probes: BTreeMap<String, u64>,
    faults: BTreeMap<String, u64>,
    kinds: BTreeMap<String, u64>,
    ignored: BTreeMap<String, u64>,
    diverged: BTreeMap<String, u64>,
    unobservable: u64,
    parse_failures: u64,
    noop_mutations: u64,
    /// signature -> (first seed, count, violation)
    violations: BTreeMap<String, (u64, u64, Violation)>,
    nontrivial_seeds: Vec<(usize, u64)>,
    known_hits: BTreeMap<String, u64>,
}

impl Agg {
    fn add(&mut self, r: &RunResult) {
        self.runs += 1;
        self.events += r.events as u64;
        self.all_fps.insert(r.fingerprint);
        if r.nontrivial {
            self.nontrivial_fps.insert(r.fingerprint);
            if self.nontrivial_seeds.len() < 64 && r.violation.is_none() && r.diverged.is_none() {
                self.nontrivial_seeds.push((r.events, r.seed));
            }
        }
        self.states.extend(r.state_hashes.iter().copied());
        self.trigrams.extend(r.trigrams.iter().copied());
        for (k, v) in &r.checks {
            *self.checks.entry(k.clone()).or_default() += v;
        }
        for (k, v) in &r.probes {
            *self.probes.entry(k.clone()).or_default() += v;
        }
        for (k, v) in &r.faults {
            *self.faults.entry(k.clone()).or_default() += v;
        }
        for (k, v) in &r.kinds {
            *self.kinds.entry(k.clone()).or_default() += v;
        }
        for (k, v) in &r.ignored {
            *self.ignored.entry(k.clone()).or_default() += v;
        }
        if let Some(d) = &r.diverged {
            *self.diverged.entry(d.clone()).or_default() += 1;
        }
        for k in &r.known_hits {
            *self.known_hits.entry(k.clone()).or_default() += 1;
        }
        self.unobservable += r.unobservable;
        self.parse_failures += r.parse_failures;
        self.noop_mutations += r.noop_mutations;
        if let Some(v) = &r.violation {
            let e = self.violations.entry(v.signature.clone()).or_insert((r.seed, 0, v.clone()));
            e.1 += 1;
            if r.seed < e.0 {
                e.0 = r.seed;
                e.2 = v.clone();
            }
        }
    }
}

pub struct Known {
    pub known: Vec<(String, String, String)>, // property, signature, what
}

pub fn load_known() -> Known {
    let mut k = Known { known: vec![] };
    if let Ok(t) = std::fs::read_to_string(format!("{}/known_findings.json", verif_root())) {
        if let Ok(v) = serde_json::from_str::<serde_json::Value>(&t) {
            if let Some(a) = v.get("known").and_then(|x| x.as_array()) {
                for e in a {
                    k.known.push((
                        e["property"].as_str().unwrap_or("").to_string(),
                        e["signature"].as_str().unwrap_or("").to_string(),
                        e["what"].as_str().unwrap_or("").to_string(),
                    ));
                }
            }
        }
    }
    k
}

fn sig_hash(s: &str) -> String {
    let mut h = 0xcbf29ce484222325u64;
    crate::world::fnv(&mut h, s.as_bytes());
    format!("{:016x}", h)
}

/// Runs a command with a timeout, draining stdout/stderr while it runs (a child blocked on a
/// full pipe must not look like a hang). Returns (exit status or None on timeout, stdout, stderr).
fn run_with_timeout(mut cmd: Command, timeout: Duration) -> (Option<std::process::ExitStatus>, String, String) {
    let mut child = match cmd.stdout(Stdio::piped()).stderr(Stdio::piped()).spawn() {
        Ok(c) => c,
        Err(_) => return (None, String::new(), String::new()),
    };
    let mut so = child.stdout.take().unwrap();
    let mut se = child.stderr.take().unwrap();
    let t1 = std::thread::spawn(move || {
        use std::io::Read;
        let mut s = String::new();
        let mut buf = Vec::new();
        let _ = so.read_to_end(&mut buf);
        s.push_str(&String::from_utf8_lossy(&buf));
        s
    });
    let t2 = std::thread::spawn(move || {
        use std::io::Read;
        let mut buf = Vec::new();
        let _ = se.read_to_end(&mut buf);
        String::from_utf8_lossy(&buf).to_string()
    });
    let start = Instant::now();
    let status = loop {
        match child.try_wait() {
            Ok(Some(st)) => break Some(st),
            Ok(None) => {
                if start.elapsed() > timeout {
                    let _ = child.kill();
                    let _ = child.wait();
                    break None;
                }
                std::thread::sleep(Duration::from_millis(2));
            }
            Err(_) => break None,
        }
    };
    (status, t1.join().unwrap_or_default(), t2.join().unwrap_or_default())
}

/// Runs a trace in a fresh process and returns the slot creation map of the run (empty on death).
fn replay_slot_origin(path: &Path, timeout: Duration) -> Vec<usize> {
    replay_result(path, timeout).map(|r| r.slot_origin).unwrap_or_default()
}

/// Runs a trace in a fresh process and returns its full result (None if the process died).
fn replay_result(path: &Path, timeout: Duration) -> Option<RunResult> {
    let mut cmd = Command::new(exe());
    cmd.arg("replay").arg(path);
    let (status, out, _) = run_with_timeout(cmd, timeout);
    status?;
    for l in out.lines() {
        if let Some(s) = l.strip_prefix("END ") {
            if let Ok(r) = serde_json::from_str::<RunResult>(s) {
                return Some(r);
            }
        }
    }
    None
}

/// Runs a trace file in a fresh process. Returns (signature of violation / death class, outcome hash).
fn replay_subprocess(path: &Path, timeout: Duration) -> (Option<String>, u64) {
    let mut cmd = Command::new(exe());
    cmd.arg("replay").arg(path);
    let (status, out, errs) = run_with_timeout(cmd, timeout);
    let Some(status) = status else { return (Some("hang".to_string()), 0) };
    for l in out.lines() {
        if let Some(s) = l.strip_prefix("END ") {
            if let Ok(r) = serde_json::from_str::<RunResult>(s) {
                return (r.violation.map(|v| v.signature), r.outcome_hash);
            }
        }
    }
    // no END line: the process died
    use std::os::unix::process::ExitStatusExt;
    let what = match (status.code(), status.signal()) {
        (_, Some(sig)) => format!("signal={sig}"),
        (Some(c), _) => format!("exit={c}"),
        _ => "unknown".to_string(),
    };
    let over = errs.lines().any(|l| l.starts_with("OVERSIZE-ALLOC") || l.contains("memory allocation of"));
    (Some(format!("process-death/{what}{}", if over { "/allocation-failure" } else { "" })), 0)
}

fn death_signature(prop: &str, class: &str, trace: &Trace) -> String {
    // the last event names the operation that killed or stalled the process
    let last = trace.events.last();
    let what = match last {
        Some(Ev::Hostile { parser, .. }) => format!("{:?}", parser).to_lowercase(),
        Some(e) => e.kind().to_lowercase(),
        None => "setup".into(),
    };
    format!("{prop}/{class}/{what}")
}

fn write_trace(path: &Path, t: &Trace) {
    std::fs::write(path, serde_json::to_string_pretty(t).unwrap()).expect("write trace");
}

/// Normalises what a replay reports into the signature used for de-duplication.
fn classify(prop: &str, raw: &Option<String>, trace: &Trace) -> Option<String> {
    match raw {
        None => None,
        Some(s) if s.starts_with("process-death") || s == "hang" => Some(death_signature(prop, s, trace)),
        Some(s) => Some(s.clone()),
    }
}

/// Delta-debugging over the event list, accepting a candidate only when the same signature is raised.
fn minimise(prop: &str, trace: &Trace, sig: &str, tmp: &Path, timeout: Duration, budget: usize) -> (Trace, usize) {
    let mut best = trace.clone();
    // cut everything after the violating event
    let mut tries = 0usize;
    // wall budget: traces of thousands of events take seconds per candidate; what has been
    // removed when the time is up is kept
    let deadline = Instant::now() + Duration::from_secs(240);
    let test = |t: &Trace, tries: &mut usize| -> bool {
        if Instant::now() > deadline {
            *tries = (*tries).max(budget);
            return false;
        }
        *tries += 1;
        write_trace(tmp, t);
        let (raw, _) = replay_subprocess(tmp, timeout);
        classify(prop, &raw, t).as_deref() == Some(sig)
    };
    let mut chunk = (best.events.len() / 2).max(1);
    while chunk >= 1 && tries < budget {
        let mut i = 0;
        let mut progress = false;
        while i < best.events.len() && tries < budget {
            let end = (i + chunk).min(best.events.len());
            let mut cand = best.clone();
            cand.events.drain(i..end);
            if !cand.events.is_empty() && test(&cand, &mut tries) {
                best = cand;
                progress = true;
            } else {
                i += chunk;
            }
        }
        if chunk == 1 && !progress {
            break;
        }
        if chunk > 1 {
            chunk /= 2;
        }
    }
    // slot-aware pass: remove an event that creates stored objects and renumber the slot
    // references of later events (plain removal shifts them onto other objects)
    for _round in 0..12 {
        if tries >= budget {
            break;
        }
        write_trace(tmp, &best);
        let origin = replay_slot_origin(tmp, timeout);
        if origin.is_empty() {
            break;
        }
        let mut progress = false;
        let mut creators: Vec<usize> = origin.clone();
        creators.dedup();
        for e in creators.into_iter().rev() {
            if tries >= budget || e >= best.events.len() {
                continue;
            }
            let first = origin.iter().position(|x| *x == e).unwrap_or(0);
            let count = origin.iter().filter(|x| **x == e).count();
            let map = |s: usize| -> Option<usize> {
                if s < first {
                    Some(s)
                } else if s < first + count {
                    None
                } else {
                    Some(s - count)
                }
            };
            let mut cand = best.clone();
            cand.events.remove(e);
            let mut kept = vec![];
            for (i, mut ev) in cand.events.into_iter().enumerate() {
                if i < e || crate::run::remap_slots(&mut ev, &map) {
                    kept.push(ev);
                }
            }
            cand.events = kept;
            if !cand.events.is_empty() && test(&cand, &mut tries) {
                best = cand;
                progress = true;
                break; // slot numbering changed: recompute the origin map
            }
        }
        if !progress {
            break;
        }
    }
    // fewer users / encryptors
    for _ in 0..4 {
        if tries >= budget {
            break;
        }
        let mut cand = best.clone();
        if cand.n_users > 1 {
            cand.n_users -= 1;
            if test(&cand, &mut tries) {
                best = cand;
                continue;
            }
        }
        let mut cand = best.clone();
        if cand.n_encryptors > 1 {
            cand.n_encryptors -= 1;
            if test(&cand, &mut tries) {
                best = cand;
                continue;
            }
        }
        break;
    }
    (best, tries)
}

fn read_events_jsonl(path: &Path) -> Option<Trace> {
    let text = std::fs::read_to_string(path).ok()?;
    let mut lines = text.lines();
    let header: serde_json::Value = serde_json::from_str(lines.next()?).ok()?;
    let h = header.get("header")?;
    let mut events = vec![];
    for l in lines {
        if let Ok(e) = serde_json::from_str::<Ev>(l) {
            events.push(e);
        } else if let Ok(v) = serde_json::from_str::<serde_json::Value>(l) {
            // a sweep that found a failing mutant is replaced by that single mutant
            if let Some(r) = v.get("replace_last") {
                if let Ok(expl) = serde_json::from_value::<Vec<Ev>>(r.clone()) {
                    events.pop();
                    events.extend(expl);
                }
            }
        }
    }
    Some(Trace {
        property: h["property"].as_str()?.to_string(),
        features: h["features"].as_str()?.to_string(),
        seed: h["seed"].as_u64()?,
        n_users: h["n_users"].as_u64()? as usize,
        n_encryptors: h["n_encryptors"].as_u64()? as usize,
        events,
        violation: None,
        outcome_hash: 0,
    })
}

fn record_seed(prop: &str, tier: &str, seed: u64, dir: &Path, timeout: Duration) -> Option<Trace> {
    let jsonl = dir.join(format!("rec-{prop}-{seed}.jsonl"));
    let mut child = Command::new(exe())
        .args(["record", prop, tier, &seed.to_string()])
        .arg(&jsonl)
        .stdout(Stdio::null())
        .stderr(Stdio::null())
        .spawn()
        .ok()?;
    let start = Instant::now();
    loop {
        match child.try_wait() {
            Ok(Some(_)) => break,
            Ok(None) => {
                if start.elapsed() > timeout {
                    let _ = child.kill();
                    let _ = child.wait();
                    break;
                }
                std::thread::sleep(Duration::from_millis(5));
            }
            Err(_) => break,
        }
    }
    let t = read_events_jsonl(&jsonl);
    let _ = std::fs::remove_file(&jsonl);
    t
}

pub struct Budget {
    pub runs: u64,
    pub watchdog: Duration,
    pub wall_cap: Duration,
}

fn budget(prop: &str, tier: &str) -> Budget {
    let env_runs = std::env::var("VERIF_RUNS").ok().and_then(|s| s.parse::<u64>().ok());
    let quick = match prop {
        "C14" => 4000,
        "C07" | "C12" | "C08" => 5000,
        "C16" => 1800,
        "C13" | "C18" | "C11" => 2800,
        _ => 4000,
    };
    let second = std::env::var("CCSIM_EVIDENCE_TAG").is_ok();
    let runs = env_runs.unwrap_or(if second { quick * 6 } else if tier == "thorough" { quick * 30 } else { quick });
    Budget {
        runs,
        // (runs with thousands of revisions, components or rights take 10-20 s on an idle machine
        // and several times that when other checks run alongside)
        watchdog: Duration::from_secs(120),
        wall_cap: Duration::from_secs(if tier == "thorough" { 3000 } else { 600 }),
    }
}

pub fn level_of(prop: &str) -> &'static str {
    match prop {
        "C07" | "C08" | "C10" | "C12" | "C14" => "fault_enumeration",
        _ => "exploration",
    }
}

pub fn check(prop: &str, tier: &str, extra: &[String]) -> i32 {
    let t0 = Instant::now();
    let seed_base: u64 = std::env::var("VERIF_SEED").ok().and_then(|s| s.parse().ok()).unwrap_or(1);
    let workers: usize = std::env::var("VERIF_WORKERS").ok().and_then(|s| s.parse().ok()).unwrap_or(16);
    let b = budget(prop, tier);
    let first_seed = seed_base.wrapping_mul(10_000_019);
    let build_dir = PathBuf::from(format!("{}/build/tmp", verif_root()));
    let _ = std::fs::create_dir_all(&build_dir);
    let replays = PathBuf::from(format!("{}/replays", verif_root()));
    let _ = std::fs::create_dir_all(&replays);
    let evidence_dir = PathBuf::from(format!("{}/evidence", verif_root()));
    let _ = std::fs::create_dir_all(&evidence_dir);
    let _ = extra;

    // ---- regression replays: minimised traces of defects that were repaired; each must stay clean ----
    let mut regression_failures: Vec<(PathBuf, String)> = vec![];
    let mut regressions_run = 0u64;
    if std::env::var("CCSIM_EVIDENCE_TAG").is_err() {
        if let Ok(rd) = std::fs::read_dir(format!("{}/regressions", verif_root())) {
            let mut files: Vec<PathBuf> = rd.flatten().map(|e| e.path()).filter(|p| p.file_name().and_then(|n| n.to_str()).map(|n| n.starts_with(&format!("{prop}-")) && n.ends_with(".json")).unwrap_or(false)).collect();
            files.sort();
            for f in files {
                let Ok(text) = std::fs::read_to_string(&f) else { continue };
                let Ok(t) = serde_json::from_str::<Trace>(&text) else { continue };
                if t.features != wire::FEATURES {
                    continue;
                }
                regressions_run += 1;
                let (raw, _) = replay_subprocess(&f, b.watchdog);
                if let Some(sig) = classify(prop, &raw, &t) {
                    regression_failures.push((f, sig));
                }
            }
        }
    }

    let (tx, rx) = mpsc::channel::<WMsg>();
    let per_worker = b.runs.div_ceil(workers as u64);
    let mut ws: Vec<WorkerState> = (0..workers)
        .map(|w| WorkerState {
            child: spawn_worker(w, prop, tier, first_seed + w as u64, per_worker, workers as u64, tx.clone()),
            running: None,
            next_index: 0,
            done: false,
        })
        .collect();
    let mut agg = Agg::default();
    // (seed, class) of runs that killed or stalled their worker
    let mut deaths: Vec<(u64, String, String)> = vec![];
    let mut capped = false;
    let mut active = workers;
    while active > 0 {
        match rx.recv_timeout(Duration::from_millis(200)) {
            Ok(WMsg::Begin(w, seed)) => ws[w].running = Some((seed, Instant::now())),
            Ok(WMsg::End(w, r)) => {
                ws[w].running = None;
                ws[w].next_index += 1;
                agg.add(&r);
            }
            Ok(WMsg::Exit(w, _, _, tail)) => {
                let status = ws[w].child.wait().ok();
                if ws[w].done {
                    continue;
                }
                if let Some((seed, _)) = ws[w].running.take() {
                    use std::os::unix::process::ExitStatusExt;
                    let what = match status.map(|s| (s.code(), s.signal())) {
                        Some((_, Some(sig))) => format!("signal={sig}"),
                        Some((Some(c), _)) => format!("exit={c}"),
                        _ => "unknown".into(),
                    };
                    let over = tail.lines().any(|l| l.starts_with("OVERSIZE-ALLOC") || l.contains("memory allocation of"));
                    deaths.push((seed, format!("process-death/{what}{}", if over { "/allocation-failure" } else { "" }), tail));
                    agg.runs += 1;
                    ws[w].next_index += 1;
                }
                if ws[w].next_index < per_worker && !capped {
                    let first = first_seed + w as u64 + ws[w].next_index * workers as u64;
                    let remaining = per_worker - ws[w].next_index;
                    // seeds keep their global numbering
                    ws[w].child = spawn_worker(w, prop, tier, first, remaining, workers as u64, tx.clone());
                } else {
                    ws[w].done = true;
                    active -= 1;
                }
            }
            Err(mpsc::RecvTimeoutError::Timeout) => {}
            Err(mpsc::RecvTimeoutError::Disconnected) => break,
        }
        // watchdog
        for w in 0..workers {
            if let Some((seed, since)) = ws[w].running {
                if since.elapsed() > b.watchdog {
                    let _ = ws[w].child.kill();
                    deaths.push((seed, "hang".into(), String::new()));
                    ws[w].running = None;
                    agg.runs += 1;
                    ws[w].next_index += 1;
                }
            }
        }
        if !capped && t0.elapsed() > b.wall_cap {
            capped = true;
            for w in ws.iter_mut() {
                if !w.done {
                    // stopped by the cap, not dead: no run is attributed to this exit
                    w.running = None;
                    w.next_index = per_worker;
                    w.done = true;
                    active -= 1;
                    let _ = w.child.kill();
                    let _ = w.child.wait();
                }
            }
        }
    }
    let explore_s = t0.elapsed().as_secs_f64();

    // ---- violations: replay files ----
    let known = load_known();
    let mut reported: Vec<serde_json::Value> = vec![];
    let mut known_seen: Vec<String> = vec![];
    let mut exit_code = 0;
    let mut harness_error: Option<String> = None;
    // replays (record mode, verbose errors) get three times the workers' watchdog
    let replay_timeout = b.watchdog * 3;

    for (f, sig) in &regression_failures {
        if known.known.iter().any(|k| k.0 == prop && &k.1 == sig) {
            continue;
        }
        println!("VIOLATION property={prop} replay={}", f.display());
        println!("  signature: {sig}");
        println!("  a repaired defect is back: this regression trace fails again");
        reported.push(json!({"signature": sig, "replay": f.display().to_string(), "regression": true}));
        exit_code = 1;
    }

    // candidate list: (seed, preliminary signature or death class)
    let mut cands: Vec<(u64, Option<String>, String)> = vec![];
    for (sig, (seed, _n, _v)) in &agg.violations {
        cands.push((*seed, Some(sig.clone()), String::new()));
    }
    let mut death_seen = BTreeSet::new();
    deaths.sort();
    for (seed, class, _tail) in &deaths {
        cands.push((*seed, None, class.clone()));
    }
    for (sig, n) in &agg.known_hits {
        if let Some(k) = known.known.iter().find(|k| k.0 == prop && &k.1 == sig) {
            println!("KNOWN-FINDING: property={prop} {} [{}] (seen in {n} runs)", k.2, k.1);
            known_seen.push(sig.clone());
        }
    }
    let mut done_sigs: BTreeSet<String> = BTreeSet::new();
    let mut slow_runs = 0u64;
    for (seed, sig0, death_class) in cands {
        // known finding? (plain violations can be decided before recording)
        if let Some(s) = &sig0 {
            if let Some(k) = known.known.iter().find(|k| k.0 == prop && &k.1 == s) {
                println!("KNOWN-FINDING: property={prop} {} [{}]", k.2, k.1);
                known_seen.push(s.clone());
                continue;
            }
        }
        if sig0.is_none() && death_seen.len() >= 12 {
            continue;
        }
        let Some(trace) = record_seed(prop, tier, seed, &build_dir, replay_timeout) else {
            harness_error = Some(format!("could not record seed {seed}"));
            continue;
        };
        let tmp = build_dir.join(format!("cand-{prop}-{}.json", std::process::id()));
        write_trace(&tmp, &trace);
        // A watchdog expiry may only mean that the run was slow (a loaded machine, an expensive
        // sweep): it is a violation only if the recorded trace still does not finish with eight
        // times the watchdog (five times, see below). Slow runs are counted, never reported.
        let is_hang = sig0.is_none() && death_class == "hang";
        let this_timeout = if is_hang { (replay_timeout * 5).min(Duration::from_secs(600)) } else { replay_timeout };
        let (raw, _) = replay_subprocess(&tmp, this_timeout);
        if is_hang && raw.as_deref() != Some("hang") && !raw.as_deref().unwrap_or("").starts_with("process-death") && raw.is_none() {
            slow_runs += 1;
            continue;
        }
        let Some(sig) = classify(prop, &raw, &trace) else {
            harness_error = Some(format!("seed {seed}: violation {:?}{} did not reproduce from its recorded trace", sig0, death_class));
            continue;
        };
        if let Some(s0) = &sig0 {
            if *s0 != sig {
                harness_error = Some(format!("seed {seed}: recorded trace raises {sig} instead of {s0}"));
                continue;
            }
        }
        if !done_sigs.insert(sig.clone()) {
            continue;
        }
        if sig0.is_none() {
            death_seen.insert(sig.clone());
        }
        if let Some(k) = known.known.iter().find(|k| k.0 == prop && k.1 == sig) {
            println!("KNOWN-FINDING: property={prop} {} [{}]", k.2, k.1);
            known_seen.push(sig.clone());
            continue;
        }
        // hangs are not minimised (candidates would have to be told apart from slow runs)
        let (min, tries) = if is_hang { (trace.clone(), 0) } else { minimise(prop, &trace, &sig, &tmp, replay_timeout, 300) };
        let path = replays.join(format!("{prop}-{}.json", sig_hash(&sig)));
        let mut min = min;
        // final verification in a fresh process, twice: same signature, same outcome hash
        write_trace(&path, &min);
        let (r1, h1) = replay_subprocess(&path, this_timeout);
        let (r2, h2) = if is_hang { (r1.clone(), h1) } else { replay_subprocess(&path, this_timeout) };
        let s1 = classify(prop, &r1, &min);
        let s2 = classify(prop, &r2, &min);
        if s1.as_deref() != Some(&sig) || s2.as_deref() != Some(&sig) || h1 != h2 {
            harness_error = Some(format!("replay of {} is not reproducible ({:?} / {:?})", path.display(), s1, s2));
            continue;
        }
        min.violation = Some(Violation { property: prop.to_string(), signature: sig.clone(), at_event: min.events.len().saturating_sub(1), detail: agg.violations.get(&sig).map(|v| v.2.detail.clone()).unwrap_or_default() });
        min.outcome_hash = h1;
        write_trace(&path, &min);
        println!("VIOLATION property={prop} replay={}", path.display());
        println!("  signature: {sig}");
        println!("  seed {seed}, {} events after minimisation ({} before, {} candidate replays), detail: {}", min.events.len(), trace.events.len(), tries, min.violation.as_ref().unwrap().detail);
        reported.push(json!({"signature": sig, "seed": seed, "replay": path.display().to_string(), "events": min.events.len(), "runs_with_signature": agg.violations.get(&sig).map(|v| v.1).unwrap_or(1)}));
        exit_code = 1;
        let _ = std::fs::remove_file(&tmp);
    }

    // ---- samples ----
    let mut samples: Vec<serde_json::Value> = vec![];
    agg.nontrivial_seeds.sort();
    for (_, seed) in agg.nontrivial_seeds.iter().take(2) {
        if let Some(t) = record_seed(prop, tier, *seed, &build_dir, replay_timeout) {
            // events with the abstract outcome each had when the trace is replayed
            let tmp = build_dir.join(format!("sample-{prop}-{}.json", std::process::id()));
            write_trace(&tmp, &t);
            let outcomes = replay_result(&tmp, replay_timeout).map(|r| r.outcomes).unwrap_or_default();
            let _ = std::fs::remove_file(&tmp);
            let evs: Vec<String> = t
                .events
                .iter()
                .enumerate()
                .map(|(i, e)| format!("{} -> {}", serde_json::to_string(e).unwrap(), outcomes.get(i).cloned().unwrap_or_default()))
                .collect();
            samples.push(json!({"seed": seed, "n_users": t.n_users, "n_encryptors": t.n_encryptors, "events_with_outcomes": evs}));
        }
    }
    if samples.is_empty() {
        samples.push(json!({"note": "no non-trivial run without violation in this batch"}));
    }

    let wall = t0.elapsed().as_secs_f64();
    let zero_probes: Vec<&str> = expected_probes(prop).iter().copied().filter(|p| agg.probes.get(*p).copied().unwrap_or(0) == 0).collect();
    let evidence = json!({
        "property_id": prop,
        "tier": tier,
        "seed": seed_base,
        "level": level_of(prop),
        "wall_s": wall,
        "violations": reported.len(),
        "coverage": {
            "evaluations": agg.runs,
            "distinct_nontrivial": agg.nontrivial_fps.len(),
            "rule": rule_text(prop),
            "samples": samples,
            "sim_steps": agg.events,
            "simulated_time_note": "no component reads a clock; simulated time is the event count (sim_steps)",
            "runs_per_hour": if explore_s > 0.0 { (agg.runs as f64 / explore_s * 3600.0) as u64 } else { 0 },
            "seeds": {"first": first_seed, "count": agg.runs, "derivation": "VERIF_SEED * 10000019 + i"},
            "distinct_fingerprints_all": agg.all_fps.len(),
            "states": agg.states.len(),
            "interleavings_trigrams": agg.trigrams.len(),
            "events_by_kind": agg.kinds,
            "faults_fired": agg.faults,
            "probes": agg.probes,
            "probes_at_zero": zero_probes,
            "oracle_checks": agg.checks,
            "ignored_observations_of_other_properties": agg.ignored,
            "diverged_runs": agg.diverged,
            "unobservable": agg.unobservable,
            "policy_parse_failures": agg.parse_failures,
            "noop_mutations": agg.noop_mutations,
            "process_deaths_or_hangs": deaths.len(),
            "slow_runs_that_finished_with_a_longer_timeout": slow_runs,
            "wall_cap_hit": capped,
            "features": wire::FEATURES,
            "workers": workers,
            "components": {
                "real": ["cosmian_cover_crypt (all of it, built from /repo's working tree)", "cosmian_crypto_core", "ml-kem", "curve arithmetic", "AES-GCM", "KMAC/SHA3"],
                "simulated": ["network (delay, loss, duplication, reordering of MPK and refresh traffic)", "storage (slots with byte and record level faults)", "process crash/restart (reload from serialized bytes)", "backup/restore of the authority", "OS entropy (interposed getrandom, seeded)", "instance CSPRNG (seeded ChaCha)", "parties' application logic"]
            },
            "enumerated": {
                "note": "fault sub-spaces enumerated position by position on sampled objects (SweepSlot / SweepUsk / SweepHostile events); 'exhaustive' sweeps visit every bit / length / byte / operator position / field x boundary value of their object, 'strided' ones every k-th",
                "counts": agg.checks.iter().filter(|(k, _)| k.starts_with("enumerated-")).map(|(k, v)| (k.clone(), *v)).collect::<BTreeMap<String, u64>>(),
                "objects_swept": agg.probes.iter().filter(|(k, _)| k.starts_with("sweep-")).map(|(k, v)| (k.clone(), *v)).collect::<BTreeMap<String, u64>>(),
            },
            "regression_traces_replayed": regressions_run,
            "known_findings_seen": known_seen,
            "violations_detail": reported,
            "exhaustive": false
        },
        "assumptions": [
            "the reference model (sim/src/model.rs) states the intended behaviour",
            "the wire reader (sim/src/wire.rs) matches the serialization format (self-checked by `ccsim selftest`)",
            "sampling: a clean batch is evidence, not proof"
        ]
    });
    let tag = std::env::var("CCSIM_EVIDENCE_TAG").ok();
    let mut evidence = evidence;
    let path = match &tag {
        Some(t) => evidence_dir.join(format!("{prop}.{t}.json")),
        None => {
            // a thorough run embeds the result of the second feature configuration
            let p2 = evidence_dir.join(format!("{prop}.cfg-b.json"));
            if let Ok(t) = std::fs::read_to_string(&p2) {
                if let Ok(v) = serde_json::from_str::<serde_json::Value>(&t) {
                    evidence["coverage"]["second_configuration"] = json!({
                        "features": v["coverage"]["features"],
                        "evaluations": v["coverage"]["evaluations"],
                        "distinct_nontrivial": v["coverage"]["distinct_nontrivial"],
                        "violations": v["violations"],
                        "wall_s": v["wall_s"],
                    });
                }
            }
            evidence_dir.join(format!("{prop}.json"))
        }
    };
    if let Err(e) = std::fs::write(&path, serde_json::to_string_pretty(&evidence).unwrap()) {
        eprintln!("cannot write evidence: {e}");
        return 2;
    }
    println!(
        "{prop} {tier}: {} runs, {} events, {} distinct non-trivial fingerprints, {} states, {} diverged, {} deaths/hangs, {:.1}s{}",
        agg.runs, agg.events, agg.nontrivial_fps.len(), agg.states.len(), agg.diverged.values().sum::<u64>(), deaths.len(), wall,
        if capped { " (wall cap hit)" } else { "" }
    );
    if !agg.diverged.is_empty() {
        for (k, v) in agg.diverged.iter().take(8) {
            println!("  diverged x{v}: {k}");
        }
    }
    if let Some(n) = agg.probes.get("MODEL-SELF-CHECK-MISMATCH") {
        harness_error = Some(format!("the rights-level and the name-level formulations of the reference model disagreed {n} times"));
    }
    if let Some(e) = harness_error {
        eprintln!("HARNESS ERROR: {e}");
        if exit_code == 0 {
            return 2;
        }
    }
    exit_code
}

fn expected_probes(prop: &str) -> &'static [&'static str] {
    match prop {
        "C01" => &["decaps-newest-revision", "hybridized-encapsulation", "classic-multi-target"],
        "C02" => &["decaps-refused-no-right"],
        "C04" => &["rekey-strict-subset", "refresh-keep", "refresh-nokeep", "usk-unequal-chains", "decaps-older-revision", "decaps-refused-stale-revision"],
        "C05" => &["prune", "refresh-dropped-rights", "refresh-keep", "refresh-nokeep"],
        "C06" => &["encaps-refused-disabled"],
        "C08" => &["forged-rejected-at-verify", "forged-rejected-at-parse"],
        "C09" => &["update-born-disabled", "rekey-error", "encaps-refused-no-key", "encaps-refused-two-attrs", "encaps-refused-disabled", "refresh-unknown-id"],
        "C10" => &["update-born-disabled", "rekey-error", "refresh-unknown-id"],
        "C11" => &["hybridized-encapsulation", "hybridized-multi-target", "classic-multi-target"],
        "C13" => &["cleartext-header-reload"],
        "C14" => &["hostile-parsed-and-used", "hostile-rejected"],
        "C17" => &["refresh-unknown-id", "refresh-keep"],
        "C18" => &["recaps-narrows-audience", "recaps-multi-target", "recaps-nothing-recoverable", "decaps-of-recaps-output"],
        _ => &[],
    }
}

fn rule_text(prop: &str) -> String {
    format!(
        "Each evaluation is one seeded simulated run of the {prop} profile (swarm-drawn structure, parties, operation mix, fault rates; see DESIGN.md section 5). \
         A run's fingerprint hashes the sequence of (event kind, abstract outcome) and the abstract model state after every event \
         (#dimensions, #attributes, histogram of MSK chain lengths, #disabled rights, per-user chain shape and staleness, per-encryptor staleness, queue and store sizes). \
         A run is non-trivial when it exercised the property's own sub-predicate at least once (rule per property in sim/src/run.rs::nontrivial). \
         distinct_nontrivial counts distinct fingerprints among non-trivial runs with a hash set."
    )
}

pub fn selftest() -> i32 {
    // Wire reader against objects produced by the untampered API; model cover relation vs rights.
    let r = crate::seams::run_in_sim_thread(7, || {
        let mut errs: Vec<String> = vec![];
        for seed in 0..40u64 {
            let (res, _) = crate::run::run_seed("C11", 1000 + seed, false, None);
            if res.unobservable > 0 {
                errs.push(format!("seed {seed}: {} unobservable structural checks", res.unobservable));
            }
            let (r1, _) = crate::run::run_seed("C01", 2000 + seed, false, None);
            if r1.probes.iter().any(|(k, _)| k == "MODEL-SELF-CHECK-MISMATCH") {
                errs.push(format!("seed {}: rights-level and name-level model disagree", 2000 + seed));
            }
            if !r1.checks.iter().any(|(k, v)| k == "model-self-check" && *v > 0) && seed == 0 {
                errs.push("model self-check never ran".to_string());
            }
        }
        errs
    });
    match r {
        crate::seams::SimOutcome::Done(errs) => {
            if errs.is_empty() {
                println!("selftest ok");
                0
            } else {
                for e in errs {
                    eprintln!("{e}");
                }
                2
            }
        }
        crate::seams::SimOutcome::Panicked(m) => {
            eprintln!("selftest panicked: {m}");
            2
        }
    }
}

/// Determinism proof: every seed of every profile is run twice, in different processes and at
/// different worker counts (16 striding workers vs 3), and fingerprints, outcome hashes and
/// the digest of every serialized object produced are compared.
pub fn determinism(n: u64) -> i32 {
    let props = ["C01", "C03", "C04", "C05", "C06", "C07", "C08", "C09", "C10", "C11", "C12", "C13", "C14", "C16", "C17", "C18"];
    let mut bad = 0u64;
    let mut total = 0u64;
    for prop in props {
        let collect = |workers: u64| -> BTreeMap<u64, (u64, u64, u64, usize)> {
            let per = n.div_ceil(workers);
            let children: Vec<Child> = (0..workers)
                .map(|w| {
                    Command::new(exe())
                        .args(["worker", prop, "quick", &(777_000 + w).to_string(), &per.to_string(), &workers.to_string()])
                        .stdout(Stdio::piped())
                        .stderr(Stdio::null())
                        .spawn()
                        .expect("spawn")
                })
                .collect();
            let mut m = BTreeMap::new();
            for c in children {
                let out = c.wait_with_output().expect("wait");
                for l in String::from_utf8_lossy(&out.stdout).lines() {
                    if let Some(s) = l.strip_prefix("END ") {
                        if let Ok(r) = serde_json::from_str::<RunResult>(s) {
                            if r.seed < 777_000 + n {
                                m.insert(r.seed, (r.fingerprint, r.outcome_hash, r.bytes_digest, r.events));
                            }
                        }
                    }
                }
            }
            m
        };
        let a = collect(16);
        let b = collect(3);
        let mut prop_bad = 0;
        for (seed, va) in &a {
            total += 1;
            match b.get(seed) {
                Some(vb) if vb == va => {}
                other => {
                    prop_bad += 1;
                    if prop_bad <= 3 {
                        eprintln!("DIVERGENCE {prop} seed {seed}: {:?} vs {:?}", va, other);
                    }
                }
            }
        }
        println!("{prop}: {} seeds run twice (16 workers vs 3 workers), {} divergences", a.len(), prop_bad);
        bad += prop_bad;
    }
    let _ = std::fs::create_dir_all(format!("{}/selftest", verif_root()));
    let _ = std::fs::write(
        format!("{}/selftest/determinism.json", verif_root()),
        serde_json::to_string_pretty(&json!({"seeds_per_profile": n, "profiles": props.len(), "executions_compared": total, "divergences": bad, "compared": ["run fingerprint (event kinds, outcomes, abstract states)", "outcome hash", "digest of every serialized object produced (keys, encapsulations, MSK, MPK)"], "worker_counts": [16, 3], "features": wire::FEATURES})).unwrap(),
    );
    if bad == 0 {
        println!("determinism ok: {total} seeds compared");
        0
    } else {
        eprintln!("HARNESS ERROR: {bad} non-deterministic runs");
        2
    }
}
