//! One simulated run: swarm configuration, prelude, seeded event loop, epilogue; violation
//! detection per property; abstract fingerprints for the evidence; replay of explicit traces.

use std::collections::BTreeSet;
use std::sync::atomic::Ordering;

use cosmian_cover_crypt::{
    traits::KemAc, AccessStructure, EncryptedHeader, MasterPublicKey, MasterSecretKey,
    UserSecretKey, XEnc,
};
use cosmian_crypto_core::bytes_ser_de::Serializable;
use serde::{Deserialize, Serialize};

use crate::alloc::{LARGEST, PEAK, CUR};
use crate::events::*;
use crate::faults;
use crate::gen::{Gen, Swarm};
use crate::obs::{owned_classes, Class, Obs};
use crate::rng::{mix, Rng};
use crate::seams::guard;
use crate::wire;
use crate::world::{fnv, SlotKind, World};

#[derive(Clone, Debug, Serialize, Deserialize)]
pub struct Violation {
    pub property: String,
    pub signature: String,
    pub at_event: usize,
    pub detail: String,
}

#[derive(Clone, Debug, Serialize, Deserialize, Default)]
pub struct RunResult {
    pub seed: u64,
    pub events: usize,
    pub violation: Option<Violation>,
    pub diverged: Option<String>,
    pub fingerprint: u64,
    pub nontrivial: bool,
    pub state_hashes: Vec<u64>,
    pub trigrams: Vec<u64>,
    pub outcome_hash: u64,
    pub checks: Vec<(String, u64)>,
    pub probes: Vec<(String, u64)>,
    pub faults: Vec<(String, u64)>,
    pub kinds: Vec<(String, u64)>,
    pub ignored: Vec<(String, u64)>,
    pub unobservable: u64,
    pub parse_failures: u64,
    pub noop_mutations: u64,
    pub outcomes: Vec<String>,
    #[serde(default)]
    pub known_hits: Vec<String>,
    /// Digest of every serialized object the run produced (determinism proof).
    #[serde(default)]
    pub bytes_digest: u64,
    /// For each slot, the index of the event that created it.
    #[serde(default)]
    pub slot_origin: Vec<usize>,
}

#[derive(Clone, Debug, Serialize, Deserialize)]
pub struct Trace {
    pub property: String,
    pub features: String,
    pub seed: u64,
    pub n_users: usize,
    pub n_encryptors: usize,
    pub events: Vec<Ev>,
    #[serde(default)]
    pub violation: Option<Violation>,
    #[serde(default)]
    pub outcome_hash: u64,
}

/// Which check classes must be evaluated for a property (owned classes plus those needed to
/// notice divergence).
fn wanted(prop: &str) -> Vec<Class> {
    let mut v: Vec<Class> = owned_classes(prop).to_vec();
    if prop == "C13" {
        v.extend([Class::UskShape, Class::MskShape, Class::Flavour, Class::MpkKeys]);
    }
    v
}

/// Is the run non-trivial for the property (did it exercise the property's own sub-predicate)?
fn nontrivial(prop: &str, w: &World) -> bool {
    let p = |k: &str| w.stats.probes.get(k).copied().unwrap_or(0) > 0;
    let c = |k: &str| w.stats.checks.get(k).copied().unwrap_or(0) > 0;
    let f = |k: &str| w.stats.faults.get(k).copied().unwrap_or(0) > 0;
    match prop {
        "C01" => p("decaps-newest-revision"),
        "C02" => p("decaps-refused-no-right"),
        "C03" => c("id-unique") && c("decaps") && (w.stats.by_kind.get("DelAttr").is_some() || w.stats.by_kind.get("RenameAttr").is_some() || w.stats.by_kind.get("DelDim").is_some() || w.stats.by_kind.get("AddAttr").copied().unwrap_or(0) > 0),
        "C04" => p("refresh-keep") || p("refresh-nokeep") || p("decaps-refused-stale-revision") || p("decaps-older-revision"),
        "C05" => (p("prune") || p("refresh-dropped-rights")) && (p("refresh-keep") || p("refresh-nokeep")),
        "C06" => p("encaps-refused-disabled"),
        "C07" | "C12" => c("tampered-read"),
        "C08" => c("forged-refresh") || p("forged-rejected-at-parse"),
        "C09" => c("ok-err"),
        "C10" => c("unchanged-msk") || c("unchanged-usk"),
        "C11" => p("hybridized-encapsulation") || c("usk"),
        "C13" => c("reload"),
        "C14" => c("hostile"),
        "C16" => c("fresh"),
        "C17" => c("tracing"),
        "C18" => c("recaps"),
        _ => {
            let _ = f;
            true
        }
    }
}

pub struct Runner {
    pub prop: String,
    pub owned: BTreeSet<Class>,
    pub world: World,
    pub trace: Vec<Ev>,
    pub violation: Option<Violation>,
    pub diverged: Option<String>,
    pub kinds_seq: Vec<&'static str>,
    pub record_to: Option<std::fs::File>,
    /// Signatures listed in known_findings.json for this property.
    pub known: BTreeSet<String>,
    pub known_hits: BTreeSet<String>,
    /// Twin run: reload events only advance the clock.
    pub skip_reloads: bool,
}

impl Runner {
    pub fn new(prop: &str, seed: u64, n_users: usize, n_encryptors: usize) -> Result<Self, String> {
        let world = World::new(seed, n_users, n_encryptors, &wanted(prop))?;
        Ok(Self {
            prop: prop.to_string(),
            owned: owned_classes(prop).iter().copied().collect(),
            world,
            trace: vec![],
            violation: None,
            diverged: None,
            kinds_seq: vec![],
            record_to: None,
            known: crate::supervisor::load_known().known.into_iter().filter(|k| k.0 == prop).map(|k| k.1).collect(),
            known_hits: BTreeSet::new(),
            skip_reloads: false,
        })
    }

    pub fn stopped(&self) -> bool {
        self.violation.is_some() || self.diverged.is_some()
    }

    /// Applies one event to the SUT and the model, then evaluates the failed observations.
    pub fn apply(&mut self, ev: &Ev) {
        if self.stopped() {
            return;
        }
        if let Some(f) = &mut self.record_to {
            use std::io::Write;
            let _ = writeln!(f, "{}", serde_json::to_string(ev).unwrap());
            let _ = f.flush();
        }
        let idx = self.trace.len();
        self.trace.push(ev.clone());
        self.kinds_seq.push(ev.kind());
        // debugging aid (never set by the checks): wall time of slow events on stderr
        let t_dbg = if std::env::var_os("CCSIM_TIMING").is_some() { Some(std::time::Instant::now()) } else { None };
        self.apply_inner(ev, idx);
        if let Some(t) = t_dbg {
            let ms = t.elapsed().as_millis();
            if ms >= 300 {
                eprintln!("TIMING event {idx} {} {ms} ms", ev.kind());
            }
        }
    }

    fn apply_inner(&mut self, ev: &Ev, idx: usize) {
        let w = &mut self.world;
        w.now += 1;
        w.stats.events += 1;
        *w.stats.by_kind.entry(ev.kind()).or_default() += 1;
        w.failed.clear();
        let n_out = w.outcomes.len();
        if matches!(
            ev,
            Ev::AddDim { .. } | Ev::DelDim { .. } | Ev::AddAttr { .. } | Ev::DelAttr { .. } | Ev::RenameAttr { .. } | Ev::DisableAttr { .. } | Ev::Rekey { .. } | Ev::Prune { .. } | Ev::Restore { .. } | Ev::RequestRefresh { .. } | Ev::ChurnIds { .. }
        ) {
            w.epoch += 1;
        }
        match ev {
            Ev::AddDim { name, hierarchy } => w.ev_add_dim(name, *hierarchy),
            Ev::DelDim { name } => w.ev_del_dim(name),
            Ev::AddAttr { dim, name, hybrid, after } => w.ev_add_attr(dim, name, *hybrid, after.as_deref()),
            Ev::DelAttr { dim, name } => w.ev_del_attr(dim, name),
            Ev::RenameAttr { dim, name, new } => w.ev_rename_attr(dim, name, new),
            Ev::DisableAttr { dim, name } => w.ev_disable_attr(dim, name),
            Ev::Update => w.ev_update(),
            Ev::Rekey { pol } => w.ev_rekey(pol),
            Ev::Prune { pol } => w.ev_prune(pol),
            Ev::DeriveMpk => w.ev_derive_mpk(),
            Ev::Keygen { user, pol } => w.ev_keygen(*user, pol),
            Ev::Publish { to } => w.ev_publish(to),
            Ev::Deliver { reply_delay, reply_dup, reply_drop } => w.ev_deliver(*reply_delay, *reply_dup, *reply_drop),
            Ev::Encrypt { enc, pol, kind, repeat } => w.ev_encrypt(*enc, pol, kind, *repeat),
            Ev::Read { user, slot } => w.ev_read(*user, *slot),
            Ev::RequestRefresh { user, keep, delay, dup, tamper } => w.ev_request_refresh(*user, *keep, *delay, *dup, tamper),
            Ev::Reload { what } => {
                if !self.skip_reloads {
                    w.ev_reload(what)
                }
            }
            Ev::Backup => w.ev_backup(),
            Ev::Restore { idx } => w.ev_restore(*idx),
            Ev::Recaps { slot, stale_from } => w.ev_recaps(*slot, *stale_from),
            Ev::TamperSlot { slot, op } => {
                faults::apply_byte_op(w, *slot, op);
            }
            Ev::TamperEnc { slot, op } => {
                faults::apply_enc_op(w, *slot, op);
            }
            Ev::Hostile { target, mutation, parser } => ev_hostile(w, target, mutation, parser),
            Ev::Audit => w.ev_audit(),
            Ev::Golden => crate::golden::check_golden(w),
            Ev::SweepSlot { slot, mode, stride } => w.sweep_slot(*slot, mode, *stride),
            Ev::SweepUsk { user } => w.sweep_usk(*user),
            Ev::SweepHostile { target, parser, stride } => sweep_hostile(w, target, parser, *stride),
            Ev::ScaleProbe { n } => scale_probe(w, *n),
            Ev::ChurnIds { dim, n } => w.ev_churn_ids(dim, *n),
            Ev::KeygenBurst { user, pol, n } => {
                for _ in 0..*n {
                    w.ev_keygen(*user, pol);
                    w.outcomes.pop();
                }
                w.stats.probe("keygen-burst");
                w.outcomes.push("keygen-burst".into());
            }
            Ev::PqBinding { user, slot } => w.ev_pq_binding(*user, *slot),
            Ev::RaiseTracing => w.ev_raise_tracing(),
            Ev::FreshInstances { user, enc, kpol, epol } => w.ev_fresh_instances(*user, *enc, kpol, epol),
            Ev::IdCounterJump { to, back } => w.ev_id_counter_jump(*to, *back),
            Ev::EncryptOtherThread { enc, pol, n } => w.ev_encrypt_other_thread(*enc, pol, *n),
        }
        if w.outcomes.len() == n_out {
            w.outcomes.push("-".into());
        }
        // abstract state hash
        let mut h = 0xcbf29ce484222325u64;
        let m = &w.auth.m;
        fnv(&mut h, &[m.structure.dims.len() as u8, m.structure.n_attrs() as u8]);
        let mut lens: Vec<u8> = m.secrets.values().map(|c| c.revs.len().min(255) as u8).collect();
        lens.sort_unstable();
        let mut hist = [0u8; 6];
        for l in &lens {
            hist[(*l as usize).min(5)] = hist[(*l as usize).min(5)].saturating_add(1);
        }
        fnv(&mut h, &hist);
        fnv(&mut h, &[m.secrets.values().filter(|c| c.enc_disabled).count().min(255) as u8]);
        for u in &w.users {
            match &u.usk {
                None => fnv(&mut h, &[255]),
                Some((_, mu)) => {
                    let shape = mu.chain_shape();
                    let mx = shape.iter().max().copied().unwrap_or(0).min(9) as u8;
                    let mn = shape.iter().min().copied().unwrap_or(0).min(9) as u8;
                    // staleness: how many of its rights are behind the MSK
                    let behind = mu.rights.iter().filter(|(r, c)| m.secrets.get(*r).map(|mc| mc.revs[0] != c[0]).unwrap_or(true)).count().min(9) as u8;
                    fnv(&mut h, &[mn, mx, behind]);
                }
            }
        }
        for e in &w.encryptors {
            let stale = match &e.mpk {
                None => 255u8,
                Some((_, mm)) => (w.auth.mmpk.version.saturating_sub(mm.version)).min(9) as u8,
            };
            fnv(&mut h, &[stale]);
        }
        fnv(&mut h, &[w.net.len().min(9) as u8, w.slots.len().min(40) as u8]);
        w.state_hashes.push(h);

        // evaluate observations
        let failed: Vec<Obs> = std::mem::take(&mut w.failed);
        for o in &failed {
            if self.owned.contains(&o.class) {
                let signature = format!("{}/{}/{}", self.prop, o.class.name(), o.what);
                if self.known.contains(&signature) {
                    // A listed finding: reported once by the supervisor, never a violation. The
                    // run goes on unless the observation means SUT and model have diverged.
                    self.known_hits.insert(signature.clone());
                    if o.class.diverging() && self.diverged.is_none() {
                        self.diverged = Some(format!("known-finding {signature}"));
                    }
                } else if self.violation.is_none() {
                    self.violation = Some(Violation {
                        property: self.prop.clone(),
                        signature,
                        at_event: idx,
                        detail: o.detail.clone(),
                    });
                }
            }
        }
        if let Some(expl) = self.world.reduce_to.take() {
            if self.violation.as_ref().map(|v| v.at_event == idx).unwrap_or(false) && matches!(ev, Ev::SweepSlot { .. } | Ev::SweepHostile { .. }) {
                // replace the sweep by the single mutant that failed
                self.trace.pop();
                self.kinds_seq.pop();
                for e in &expl {
                    self.trace.push(e.clone());
                    self.kinds_seq.push(e.kind());
                }
                if let Some(v) = &mut self.violation {
                    v.at_event = self.trace.len() - 1;
                }
                if let Some(f) = &mut self.record_to {
                    use std::io::Write;
                    let _ = writeln!(f, "{{\"replace_last\":{}}}", serde_json::to_string(&expl).unwrap());
                    let _ = f.flush();
                }
            }
        }
        if self.violation.is_none() && self.diverged.is_none() {
            for o in &failed {
                if self.owned.contains(&o.class) {
                    continue;
                }
                // A call that failed where the model expected success leaves both sides where
                // they were (the model is only advanced on success, and the master key is
                // compared with its snapshot): nothing has diverged, the run goes on.
                let refused_only = o.class == Class::OkErr && o.what.ends_with("expected-ok-got-err");
                if o.class.diverging() && !refused_only {
                    self.diverged = Some(format!("{}/{}", o.class.name(), o.what));
                    break;
                } else {
                    *self.world.stats.ignored_obs.entry(o.class.name()).or_default() += 1;
                }
            }
        }
    }

    pub fn finish(self, seed: u64) -> (RunResult, Vec<Ev>) {
        let w = &self.world;
        let mut fp = 0xcbf29ce484222325u64;
        for (k, o) in self.kinds_seq.iter().zip(w.outcomes.iter()) {
            fnv(&mut fp, k.as_bytes());
            fnv(&mut fp, o.as_bytes());
        }
        for h in &w.state_hashes {
            fnv(&mut fp, &h.to_le_bytes());
        }
        let mut oh = 0xcbf29ce484222325u64;
        for o in &w.outcomes {
            fnv(&mut oh, o.as_bytes());
            fnv(&mut oh, b"|");
        }
        let mut trigrams = BTreeSet::new();
        for t in self.kinds_seq.windows(3) {
            let mut h = 0xcbf29ce484222325u64;
            for k in t {
                fnv(&mut h, k.as_bytes());
                fnv(&mut h, b"/");
            }
            trigrams.insert(h);
        }
        let mut bd = 0xcbf29ce484222325u64;
        for sl in &w.slots {
            fnv(&mut bd, &sl.orig);
        }
        let mut keys: Vec<&Vec<u8>> = w.issued.keys().collect();
        keys.sort();
        for k in keys {
            fnv(&mut bd, k);
        }
        if let Ok(b) = w.auth.msk.serialize() {
            fnv(&mut bd, &b);
        }
        if let Ok(b) = w.auth.mpk.serialize() {
            fnv(&mut bd, &b);
        }
        let states: BTreeSet<u64> = w.state_hashes.iter().copied().collect();
        let conv = |m: &std::collections::BTreeMap<&'static str, u64>| m.iter().map(|(k, v)| (k.to_string(), *v)).collect::<Vec<_>>();
        let res = RunResult {
            seed,
            events: self.trace.len(),
            nontrivial: nontrivial(&self.prop, w),
            violation: self.violation.clone(),
            diverged: self.diverged.clone(),
            fingerprint: fp,
            state_hashes: states.into_iter().collect(),
            trigrams: trigrams.into_iter().collect(),
            outcome_hash: oh,
            checks: conv(&w.stats.checks),
            probes: conv(&w.stats.probes),
            faults: conv(&w.stats.faults),
            kinds: conv(&w.stats.by_kind),
            ignored: conv(&w.stats.ignored_obs),
            unobservable: w.stats.unobservable,
            parse_failures: w.stats.parse_failures,
            noop_mutations: w.stats.noop_mutations,
            outcomes: w.outcomes.clone(),
            known_hits: self.known_hits.iter().cloned().collect(),
            bytes_digest: bd,
            slot_origin: w.slots.iter().map(|s| s.born_event).collect(),
        };
        (res, self.trace)
    }
}

/// Generates and executes one run for `seed`. Must be called inside a simulation thread.
pub fn run_seed(prop: &str, seed: u64, thorough: bool, record: Option<&str>) -> (RunResult, Trace) {
    let mut rng = Rng::new(mix(seed, 0x6E0));
    let sw = Swarm::draw(prop, &mut rng, thorough);
    let n_users = sw.n_users;
    let n_enc = sw.n_encryptors;
    let n_events = sw.n_events;
    let (big_ids, long_names) = (sw.big_ids, sw.long_names);
    let huge = sw.huge;
    let (mega, broad) = (sw.mega_burst, sw.broad);
    let mut gen = Gen::new(prop, sw);
    gen.thorough = thorough;
    let mut runner = match Runner::new(prop, seed, n_users, n_enc) {
        Ok(r) => r,
        Err(e) => {
            let res = RunResult { seed, diverged: Some(format!("setup: {e}")), ..Default::default() };
            return (res, Trace { property: prop.into(), features: wire::FEATURES.into(), seed, n_users, n_encryptors: n_enc, events: vec![], violation: None, outcome_hash: 0 });
        }
    };
    if let Some(path) = record {
        runner.record_to = std::fs::File::create(path).ok();
        if let Some(f) = &mut runner.record_to {
            use std::io::Write;
            // built by hand: a serde_json map would draw hash keys in this thread and so perturb
            // the hash-map iteration orders of the code under test relative to a plain worker run
            let _ = writeln!(f, "{{\"header\":{{\"property\":\"{prop}\",\"features\":\"{}\",\"seed\":{seed},\"n_users\":{n_users},\"n_encryptors\":{n_enc}}}}}", wire::FEATURES);
        }
    }
    if big_ids {
        runner.world.stats.probe("swarm-attribute-ids-above-127");
    }
    if long_names {
        runner.world.stats.probe("swarm-names-of-128-bytes-or-more");
    }
    for ev in gen.prelude(&mut rng) {
        runner.apply(&ev);
    }
    // durable state written by the pinned release, read and used by the current tree (C13);
    // C03 and C11 own the identity and flavour observations made on it
    if (prop == "C13" && rng.pct(4)) || (matches!(prop, "C03" | "C11") && rng.pct(2)) {
        runner.apply(&Ev::Golden);
    }
    if huge {
        runner.world.stats.probe("swarm-thousands-of-rights");
    }
    if mega {
        runner.world.stats.probe("swarm-more-than-127-revisions");
    }
    if broad {
        runner.world.stats.probe("swarm-hundreds-of-components");
    }
    if matches!(prop, "C17" | "C13") && !huge && rng.pct(3) {
        // more than 255 identifiers registered in the master key, then a crash-restart of it
        let ev = gen.try_keygen(&mut rng, &runner.world, 0);
        if let Ev::Keygen { user, pol } = ev {
            let n = rng.range(256, 300);
            runner.apply(&Ev::KeygenBurst { user, pol, n });
            runner.apply(&Ev::Reload { what: ReloadTarget::Msk });
        }
    }
    for u in 0..n_users {
        if !huge && rng.pct(85) {
            let ev = gen.try_keygen(&mut rng, &runner.world, u);
            runner.apply(&ev);
        }
    }
    let mut drawn = 0;
    loop {
        if runner.stopped() {
            break;
        }
        // events queued by a burst do not count towards the run's event budget
        let queued = !gen.pending.is_empty();
        if !queued {
            if drawn >= n_events {
                break;
            }
            drawn += 1;
        }
        let ev = gen.step(&mut rng, &runner.world);
        runner.apply(&ev);
    }
    if !runner.stopped() {
        for ev in gen.epilogue(&mut rng, &runner.world) {
            runner.apply(&ev);
        }
    }
    let (mut res, events) = runner.finish(seed);
    if prop == "C13" {
        twin_check(prop, seed, n_users, n_enc, &events, &mut res);
    }
    let trace = Trace {
        property: prop.into(),
        features: wire::FEATURES.into(),
        seed,
        n_users,
        n_encryptors: n_enc,
        events,
        violation: res.violation.clone(),
        outcome_hash: res.outcome_hash,
    };
    (res, trace)
}

/// Executes an explicit trace. Must be called inside a simulation thread.
pub fn replay(trace: &Trace) -> RunResult {
    let mut runner = match Runner::new(&trace.property, trace.seed, trace.n_users, trace.n_encryptors) {
        Ok(r) => r,
        Err(e) => return RunResult { seed: trace.seed, diverged: Some(format!("setup: {e}")), ..Default::default() },
    };
    for ev in &trace.events {
        runner.apply(ev);
    }
    let (mut res, events) = runner.finish(trace.seed);
    if trace.property == "C13" {
        twin_check(&trace.property, trace.seed, trace.n_users, trace.n_encryptors, &events, &mut res);
    }
    res
}

/// C13 twin run: the same explicit trace is executed again without its reload events; every
/// other event must have the same abstract outcome (Ok/Err, Some/None, ...). A difference means
/// that using a deserialized object instead of the original changed a later outcome.
fn twin_check(prop: &str, seed: u64, n_users: usize, n_enc: usize, events: &[Ev], res: &mut RunResult) {
    if res.violation.is_some() || res.diverged.is_some() {
        return;
    }
    let kept: Vec<usize> = (0..events.len()).filter(|i| !matches!(events[*i], Ev::Reload { .. })).collect();
    if kept.len() == events.len() {
        return;
    }
    let Ok(mut twin) = Runner::new(prop, seed, n_users, n_enc) else { return };
    twin.skip_reloads = true;
    for e in events {
        twin.apply(e);
    }
    let stopped = twin.violation.clone().map(|v| v.signature).or(twin.diverged.clone());
    let (tres, _) = twin.finish(seed);
    res.checks.push(("twin-run".to_string(), 1));
    if let Some(s) = stopped {
        // the run without reloads stops where the run with reloads did not
        res.violation = Some(Violation {
            property: prop.to_string(),
            signature: format!("{prop}/reload/twin-run/only-the-run-without-reloads-stops"),
            at_event: 0,
            detail: s,
        });
        return;
    }
    for i in kept.iter() {
        let a = res.outcomes.get(*i);
        let b = tres.outcomes.get(*i);
        if a != b {
            res.violation = Some(Violation {
                property: prop.to_string(),
                signature: format!("{prop}/reload/twin-run/outcome-differs/{}", events[*i].kind()),
                at_event: *i,
                detail: format!("with reloads: {:?}, without: {:?}", a, b),
            });
            return;
        }
    }
}

// ---------------------------------------------------------------------------------------------
// Untrusted bytes (C14)
// ---------------------------------------------------------------------------------------------

fn parser_kind(p: &Parser) -> &'static str {
    match p {
        Parser::XEnc => "xenc",
        Parser::Header => "header",
        Parser::Usk => "usk",
        Parser::Mpk => "mpk",
        Parser::Msk => "msk",
        Parser::Structure => "structure",
    }
}

fn mut_kind(m: &HostileMut) -> String {
    match m {
        HostileMut::None => "intact".into(),
        HostileMut::Truncate { .. } => "truncation".into(),
        HostileMut::SetByte { .. } => "byte-overwrite".into(),
        HostileMut::FlipBit { .. } => "bit-flip".into(),
        HostileMut::Field { val, .. } => {
            let mag = if *val == 0 { "0".to_string() } else if *val < 1 << 14 { "small".to_string() } else { format!("2^{}", 63 - val.leading_zeros()) };
            format!("count-field={mag}")
        }
        HostileMut::Extend { .. } => "extension".into(),
        HostileMut::Empty { which } => format!("emptied-list-{which}"),
        HostileMut::FieldPadded { .. } => "padded-varint-field".into(),
    }
}

pub fn hostile_bytes(w: &World, target: &HostileTarget, mutation: &HostileMut, parser: &Parser) -> Option<Vec<u8>> {
    let (src_kind, mut b): (&str, Vec<u8>) = match target {
        HostileTarget::Slot(i) => {
            let s = w.slots.get(*i)?;
            (
                match s.kind {
                    SlotKind::Header => "header",
                    _ => "xenc",
                },
                if s.kind == SlotKind::Pke { s.orig[..s.enc_len].to_vec() } else { s.orig.clone() },
            )
        }
        HostileTarget::Usk(u) => ("usk", w.users.get(*u)?.usk.as_ref()?.0.serialize().ok()?.to_vec()),
        HostileTarget::Msk => ("msk", w.auth.msk.serialize().ok()?.to_vec()),
        HostileTarget::Mpk => ("mpk", w.auth.mpk.serialize().ok()?.to_vec()),
        HostileTarget::Structure => ("structure", w.auth.msk.access_structure.serialize().ok()?.to_vec()),
        HostileTarget::Random { len, seed } => ("random", Rng::new(*seed).bytes(*len)),
    };
    let _ = parser;
    match mutation {
        HostileMut::None => {}
        HostileMut::Truncate { len } => {
            if b.is_empty() {
                return None;
            }
            let l = *len % b.len();
            b.truncate(l);
        }
        HostileMut::SetByte { pos, val } => {
            if b.is_empty() {
                return None;
            }
            let n = b.len();
            b[*pos % n] = *val;
        }
        HostileMut::FlipBit { pos, bit } => {
            if b.is_empty() {
                return None;
            }
            let n = b.len();
            b[*pos % n] ^= 1 << (*bit % 8);
        }
        HostileMut::Field { k, val } => {
            let spans = wire::field_spans(src_kind, &b);
            if spans.is_empty() {
                return None;
            }
            let (s, e) = spans[*k % spans.len()];
            let mut nb = b[..s].to_vec();
            nb.extend(wire::leb_encode(*val));
            nb.extend_from_slice(&b[e..]);
            b = nb;
        }
        HostileMut::Extend { bytes } => b.extend_from_slice(bytes),
        HostileMut::Empty { which } => {
            b = faults::emptied(src_kind, &b, *which)?;
        }
        HostileMut::FieldPadded { k, delta, pad } => {
            let spans = wire::field_spans(src_kind, &b);
            if spans.is_empty() {
                return None;
            }
            let (s, e) = spans[*k % spans.len()];
            let mut rd = wire::Rd::new(&b[s..e]);
            let orig = rd.leb().ok()?;
            let mut nb = b[..s].to_vec();
            nb.extend(wire::leb_encode_padded(orig.wrapping_add(*delta), (*pad).max(1)));
            nb.extend_from_slice(&b[e..]);
            b = nb;
        }
    }
    Some(b)
}

pub fn ev_hostile(w: &mut World, target: &HostileTarget, mutation: &HostileMut, parser: &Parser) {
    let Some(bytes) = hostile_bytes(w, target, mutation, parser) else {
        return;
    };
    w.stats.check("hostile");
    w.stats.fault(match mutation {
        HostileMut::None => "hostile-intact",
        HostileMut::Truncate { .. } => "hostile-truncation",
        HostileMut::SetByte { .. } => "hostile-byte-overwrite",
        HostileMut::FlipBit { .. } => "hostile-bit-flip",
        HostileMut::Field { .. } => "hostile-count-field",
        HostileMut::Extend { .. } => "hostile-extension",
        HostileMut::Empty { .. } => "hostile-emptied-list",
        HostileMut::FieldPadded { .. } => "hostile-padded-varint",
    });
    let pk = parser_kind(parser);
    let mk = mut_kind(mutation);
    // allocation accounting for this call
    let start = CUR.load(Ordering::Relaxed);
    PEAK.store(start, Ordering::Relaxed);
    LARGEST.store(0, Ordering::Relaxed);
    let budget = 512 * bytes.len() + (1 << 20);
    // parsed values are used with up to 3 keys; with very large keys one is enough
    let big_keys = w.users.iter().filter_map(|u| u.usk.as_ref()).any(|(_, m)| m.rights.len() * m.rights.values().map(|c| c.len()).max().unwrap_or(1) > 64);
    let users: Vec<usize> = (0..w.users.len()).filter(|u| w.users[*u].usk.is_some()).take(if big_keys { 1 } else { 3 }).collect();
    // stored encapsulations a parsed key is tried on: the first classic, the first hybridized,
    // then others (at most 4)
    let mut slots: Vec<usize> = vec![];
    for want_hybrid in [false, true] {
        if let Some(i) = (0..w.slots.len()).find(|s| w.slots[*s].kind == SlotKind::Kem && w.slots[*s].m.hybrid == want_hybrid) {
            slots.push(i);
        }
    }
    for i in 0..w.slots.len() {
        if slots.len() >= 4 {
            break;
        }
        if w.slots[i].kind == SlotKind::Kem && !slots.contains(&i) {
            slots.push(i);
        }
    }
    let mut stage = "parse";
    let mut parsed_ok = false;
    let r = guard(|| {
        match parser {
            Parser::XEnc => {
                if let Ok(x) = XEnc::deserialize(&bytes) {
                    parsed_ok = true;
                    stage = "tracing_level";
                    let _ = x.tracing_level();
                    let _ = x.count();
                    stage = "decaps";
                    for u in &users {
                        let (usk, _) = w.users[*u].usk.as_ref().unwrap();
                        let _ = w.users[*u].cc.decaps(usk, &x);
                    }
                }
            }
            Parser::Header => {
                if let Ok(h) = EncryptedHeader::deserialize(&bytes) {
                    parsed_ok = true;
                    stage = "header-decrypt";
                    for u in &users {
                        let (usk, _) = w.users[*u].usk.as_ref().unwrap();
                        let _ = h.decrypt(&w.users[*u].cc, usk, None);
                    }
                }
            }
            Parser::Usk => {
                if let Ok(k) = UserSecretKey::deserialize(&bytes) {
                    parsed_ok = true;
                    stage = "tracing_level";
                    let _ = k.tracing_level();
                    let _ = k.count();
                    stage = "decaps";
                    // a parsed key with very many secrets is tried on the classic and the
                    // hybridized object only
                    let n_slots = if k.count() > 64 { 2 } else { slots.len() };
                    for s in slots.iter().take(n_slots) {
                        if let Ok(x) = XEnc::deserialize(&w.slots[*s].orig) {
                            let _ = w.auth.cc.decaps(&k, &x);
                        }
                    }
                }
            }
            Parser::Mpk => {
                if let Ok(m) = MasterPublicKey::deserialize(&bytes) {
                    parsed_ok = true;
                    stage = "tracing_level";
                    let _ = m.tracing_level();
                }
            }
            Parser::Msk => {
                if let Ok(m) = MasterSecretKey::deserialize(&bytes) {
                    parsed_ok = true;
                    stage = "accessors";
                    let _ = m.access_structure.dimensions().count();
                }
            }
            Parser::Structure => {
                if let Ok(s) = AccessStructure::deserialize(&bytes) {
                    parsed_ok = true;
                    stage = "accessors";
                    let _ = s.dimensions().count();
                    let _ = s.attributes().count();
                }
            }
        }
    });
    let peak = PEAK.load(Ordering::Relaxed).saturating_sub(start);
    let largest = LARGEST.load(Ordering::Relaxed);
    if parsed_ok {
        w.stats.probe("hostile-parsed-and-used");
    } else {
        w.stats.probe("hostile-rejected");
    }
    w.outcomes.push(format!("hostile:{}", if parsed_ok { "parsed" } else { "rejected" }));
    if let Err(p) = r {
        // keep only the panic site and the first words of the message in the signature
        let site = p.split(':').take(2).collect::<Vec<_>>().join(":");
        let site = site.rsplit('/').next().unwrap_or(&site).to_string();
        let msg: String = p.split(": ").nth(1).unwrap_or("").split_whitespace().take(3).collect::<Vec<_>>().join("-");
        w.fail(Class::Hostile, format!("panic/{pk}/{stage}/{site}/{msg}"), format!("{mk}: {p}"));
        return;
    }
    if peak > budget {
        w.fail(
            Class::Hostile,
            format!("over-allocation/{pk}"),
            format!("{mk}: peak {peak} bytes (largest request {largest}) for {} input bytes, budget {budget}", bytes.len()),
        );
    }
}

/// Enumerated hostile rewrites of one object (C14).
pub fn sweep_hostile(w: &mut World, target: &HostileTarget, parser: &Parser, stride: usize) {
    // one hostile call of the sweep; remembers the first failing mutant as an explicit event
    fn ev_hostile(w: &mut World, target: &HostileTarget, m: &HostileMut, parser: &Parser) {
        let before = w.failed.len();
        super::run::ev_hostile(w, target, m, parser);
        if w.failed.len() > before && w.reduce_to.is_none() {
            w.reduce_to = Some(vec![Ev::Hostile { target: target.clone(), mutation: m.clone(), parser: parser.clone() }]);
        }
    }
    let Some(base) = hostile_bytes(w, target, &HostileMut::None, parser) else { return };
    let stride = stride.max(1);
    let n_before = w.failed.len();
    let mut n = 0u64;
    // every truncation
    for len in (0..base.len()).step_by(stride) {
        ev_hostile(w, target, &HostileMut::Truncate { len }, parser);
        w.outcomes.pop();
        n += 1;
        if w.failed.len() > n_before {
            break;
        }
    }
    // every single-byte corruption (three xor masks)
    if w.failed.len() == n_before {
        'outer: for pos in (0..base.len()).step_by(stride) {
            for mask in [0x01u8, 0x80, 0xff] {
                ev_hostile(w, target, &HostileMut::SetByte { pos, val: base[pos] ^ mask }, parser);
                w.outcomes.pop();
                n += 1;
                if w.failed.len() > n_before {
                    break 'outer;
                }
            }
        }
    }
    // every count / length field x every boundary value
    const BOUNDARY: &[u64] = &[0, 1, 2, 127, 128, 255, 16383, 16384, 1 << 31, (1 << 32) - 1, 1 << 32, 1 << 45, 1 << 62, 1 << 63, u64::MAX - 9, u64::MAX];
    if w.failed.len() == n_before {
        let kind = match target {
            HostileTarget::Slot(i) => match w.slots.get(*i).map(|s| s.kind.clone()) {
                Some(SlotKind::Header) => "header",
                _ => "xenc",
            },
            HostileTarget::Usk(_) => "usk",
            HostileTarget::Msk => "msk",
            HostileTarget::Mpk => "mpk",
            HostileTarget::Structure => "structure",
            HostileTarget::Random { .. } => "random",
        };
        let fields = wire::field_spans(kind, &base).len();
        // the field loops get the same call budget as the position loops
        let budget = (base.len() * 4 / stride).max(200);
        let fstride = (fields * 22).div_ceil(budget).max(1);
        'f: for k in (0..fields).step_by(fstride) {
            for val in BOUNDARY {
                ev_hostile(w, target, &HostileMut::Field { k, val: *val }, parser);
                w.outcomes.pop();
                n += 1;
                if w.failed.len() > n_before {
                    break 'f;
                }
            }
        }
        'p: for k in (0..fields).step_by(fstride) {
            for (delta, pad) in [(0u64, 1u8), (0, 2), (1, 1), (1, 2), (2, 2), (3, 3)] {
                ev_hostile(w, target, &HostileMut::FieldPadded { k, delta, pad }, parser);
                w.outcomes.pop();
                n += 1;
                if w.failed.len() > n_before {
                    break 'p;
                }
            }
        }
        for which in 0..7u8 {
            ev_hostile(w, target, &HostileMut::Empty { which }, parser);
            w.outcomes.pop();
            n += 1;
        }
    }
    *w.stats.checks.entry("enumerated-hostile-rewrites").or_default() += n;
    w.stats.probe(if stride == 1 { "sweep-hostile-exhaustive" } else { "sweep-hostile-strided" });
    w.outcomes.push(format!("sweep-hostile:{}", if w.failed.len() > n_before { "violation" } else { "clean" }));
}

/// Rewrites every slot reference of an event through `f`; returns false when a referenced slot
/// has no image (the event must then be dropped).
pub fn remap_slots(ev: &mut Ev, f: &dyn Fn(usize) -> Option<usize>) -> bool {
    fn m(x: &mut usize, f: &dyn Fn(usize) -> Option<usize>) -> bool {
        match f(*x) {
            Some(y) => {
                *x = y;
                true
            }
            None => false,
        }
    }
    match ev {
        Ev::Read { slot, .. } | Ev::Recaps { slot, .. } | Ev::SweepSlot { slot, .. } => m(slot, f),
        Ev::Reload { what: ReloadTarget::Slot(i) } | Ev::Reload { what: ReloadTarget::Cleartext(i) } => m(i, f),
        Ev::Hostile { target: HostileTarget::Slot(i), .. } | Ev::SweepHostile { target: HostileTarget::Slot(i), .. } => m(i, f),
        Ev::TamperSlot { slot, op } => {
            let ok = m(slot, f);
            ok && match op {
                ByteOp::Torn { other_slot, .. } | ByteOp::Misdirect { other_slot } => m(other_slot, f),
                _ => true,
            }
        }
        Ev::TamperEnc { slot, op } => {
            let ok = m(slot, f);
            ok && match op {
                EncOp::TagFrom { other_slot } | EncOp::EncFrom { other_slot, .. } | EncOp::TrapsFrom { other_slot } | EncOp::MetaFrom { other_slot } => m(other_slot, f),
                _ => true,
            }
        }
        _ => true,
    }
}

fn thread_cpu_ns() -> u64 {
    let mut ts = libc::timespec { tv_sec: 0, tv_nsec: 0 };
    unsafe {
        libc::clock_gettime(libc::CLOCK_THREAD_CPUTIME_ID, &mut ts);
    }
    ts.tv_sec as u64 * 1_000_000_000 + ts.tv_nsec as u64
}

/// Doubling experiment (C14, "time proportional to the input"): a valid access structure with
/// n and with 4n attributes is serialized (alone and inside an MPK-like prefix is not needed:
/// the structure reader is shared) and deserialized; the CPU time of this thread - insensitive
/// to machine load - must not grow much faster than the input. A quadratic reader gives a
/// ratio near 64, a linear one near 8; the bound is 24 plus a constant allowance.
pub fn scale_probe(w: &mut World, n: usize) {
    use cosmian_cover_crypt::{EncryptionHint, QualifiedAttribute};
    let build = |count: usize| -> Option<Vec<u8>> {
        let mut s = AccessStructure::new();
        s.add_anarchy("D".to_string()).ok()?;
        for i in 0..count {
            s.add_attribute(QualifiedAttribute::new("D", &format!("a{i}")), EncryptionHint::Classic, None).ok()?;
        }
        s.serialize().ok().map(|b| b.to_vec())
    };
    let (Some(small), Some(big)) = (build(n), build(8 * n)) else { return };
    let time = |bytes: &[u8]| -> Option<u64> {
        let mut best = u64::MAX;
        for _ in 0..3 {
            let t0 = thread_cpu_ns();
            let r = AccessStructure::deserialize(bytes);
            let dt = thread_cpu_ns() - t0;
            r.ok()?;
            best = best.min(dt);
        }
        Some(best)
    };
    let r = guard(|| (time(&small), time(&big)));
    w.stats.check("scale-probe");
    w.stats.probe("parser-doubling-experiment");
    match r {
        Err(p) => w.fail(Class::Hostile, "panic/structure/scale-probe", p),
        Ok((Some(t1), Some(t4))) => {
            w.outcomes.push("scale-probe:ok".into());
            if t4 > 24 * t1 + 100_000_000 {
                w.fail(
                    Class::Hostile,
                    "super-linear-time/structure",
                    format!("{} attributes: {} us, {} attributes: {} us (ratio {:.1})", n, t1 / 1000, 8 * n, t4 / 1000, t4 as f64 / t1.max(1) as f64),
                );
            }
        }
        _ => w.outcomes.push("scale-probe:unparseable".into()),
    }
}
