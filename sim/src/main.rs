//! ccsim — deterministic simulation with fault injection for cover_crypt.
//!
//! Modes:
//!   ccsim check <ID> <quick|thorough>      supervisor: workers, minimisation, evidence
//!   ccsim worker <ID> <tier> <first> <count> [step]   runs seeds, one JSON line per run
//!   ccsim record <ID> <tier> <seed> <events.jsonl>    one run, events flushed as they happen
//!   ccsim replay <trace.json>              executes an explicit trace, prints the result
//!   ccsim selftest                         wire reader / model self checks

mod alloc;
mod bigmod;
mod events;
mod faults;
mod gen;
mod golden;
mod model;
mod obs;
mod rng;
mod run;
mod seams;
mod supervisor;
mod wire;
mod world;
mod world2;

#[global_allocator]
static GLOBAL: alloc::Counting = alloc::Counting;

use std::io::Write;

use run::{RunResult, Trace};
use seams::{run_in_sim_thread, SimOutcome};

pub fn run_one(prop: &str, seed: u64, thorough: bool, record: Option<String>) -> (RunResult, Option<Trace>) {
    let p = prop.to_string();
    match run_in_sim_thread(seed, move || run::run_seed(&p, seed, thorough, record.as_deref())) {
        SimOutcome::Done((r, t)) => (r, Some(t)),
        SimOutcome::Panicked(msg) => (
            RunResult {
                seed,
                diverged: Some(format!("harness-panic: {msg}")),
                ..Default::default()
            },
            None,
        ),
    }
}

pub fn replay_one(trace: Trace) -> RunResult {
    let seed = trace.seed;
    match run_in_sim_thread(seed, move || run::replay(&trace)) {
        SimOutcome::Done(r) => r,
        SimOutcome::Panicked(msg) => RunResult {
            seed,
            diverged: Some(format!("harness-panic: {msg}")),
            ..Default::default()
        },
    }
}

fn main() {
    seams::install_panic_hook();
    let args: Vec<String> = std::env::args().collect();
    let mode = args.get(1).map(|s| s.as_str()).unwrap_or("");
    match mode {
        "worker" => {
            let prop = &args[2];
            let thorough = args[3] == "thorough";
            let first: u64 = args[4].parse().expect("first");
            let count: u64 = args[5].parse().expect("count");
            let step: u64 = args.get(6).map(|s| s.parse().expect("step")).unwrap_or(1);
            let out = std::io::stdout();
            for i in 0..count {
                let seed = first + i * step;
                {
                    let mut o = out.lock();
                    let _ = writeln!(o, "BEGIN {seed}");
                    let _ = o.flush();
                }
                let (mut res, _) = run_one(prop, seed, thorough, None);
                res.outcomes.clear();
                let mut o = out.lock();
                let _ = writeln!(o, "END {}", serde_json::to_string(&res).unwrap());
                let _ = o.flush();
            }
        }
        "record" => {
            let prop = &args[2];
            let thorough = args[3] == "thorough";
            let seed: u64 = args[4].parse().expect("seed");
            let path = args[5].clone();
            let (res, trace) = run_one(prop, seed, thorough, Some(path));
            if let Some(t) = trace {
                if let Some(out) = args.get(6) {
                    std::fs::write(out, serde_json::to_string_pretty(&t).unwrap()).expect("write trace");
                }
            }
            println!("END {}", serde_json::to_string(&res).unwrap());
        }
        "replay" => {
            let text = std::fs::read_to_string(&args[2]).expect("read trace");
            let trace: Trace = match serde_json::from_str(&text) {
                Ok(t) => t,
                Err(e) => {
                    eprintln!("cannot parse trace {}: {e}", args[2]);
                    std::process::exit(2);
                }
            };
            if trace.features != wire::FEATURES {
                eprintln!("trace is for features {} but this binary is {}", trace.features, wire::FEATURES);
                std::process::exit(2);
            }
            let verbose = args.iter().any(|a| a == "-v");
            let res = replay_one(trace.clone());
            if verbose {
                for (i, (e, o)) in trace.events.iter().zip(res.outcomes.iter()).enumerate() {
                    eprintln!("{i:3} {:60} -> {o}", serde_json::to_string(e).unwrap().chars().take(160).collect::<String>());
                }
            }
            println!("END {}", serde_json::to_string(&res).unwrap());
            if let Some(v) = &res.violation {
                println!("VIOLATION property={} replay={}", v.property, args[2]);
                eprintln!("signature: {}\n detail: {}\n at event {}", v.signature, v.detail, v.at_event);
                std::process::exit(1);
            }
        }
        "check" => {
            let code = supervisor::check(&args[2], args.get(3).map(|s| s.as_str()).unwrap_or("quick"), &args[4..]);
            std::process::exit(code);
        }
        "determinism" => {
            let n: u64 = args.get(2).and_then(|s| s.parse().ok()).unwrap_or(200);
            std::process::exit(supervisor::determinism(n));
        }
        "selftest" => {
            std::process::exit(supervisor::selftest());
        }
        _ => {
            eprintln!("usage: ccsim check|worker|record|replay|selftest ...");
            std::process::exit(2);
        }
    }
}
