//! Executable reference model (the oracle). Written from the property statements and the API
//! documentation; never touches cryptography: secrets are fresh integers ("revisions").
//!
//! Attributes have identities that are unique forever (never reused, survive renames); a right is
//! a set of attribute identities with at most one attribute per dimension.

use std::collections::{BTreeMap, BTreeSet};

use serde::{Deserialize, Serialize};

pub type Ident = u32;
pub type Rev = u64;
pub type MRight = BTreeSet<Ident>;

// ---------------------------------------------------------------------------------------------
// Policies
// ---------------------------------------------------------------------------------------------

#[derive(Clone, Debug, PartialEq, Eq, Hash, Serialize, Deserialize)]
pub enum Pol {
    All,
    Term(String, String),
    And(Box<Pol>, Box<Pol>),
    Or(Box<Pol>, Box<Pol>),
    /// (root only) the policy is handed to the library as an `AccessPolicy` value built from its
    /// public constructors instead of a string: no parser, hence no absorption of `x || *`.
    Raw(Box<Pol>),
}

pub type Conj = Vec<(String, String)>;

impl Pol {
    pub fn term(d: &str, a: &str) -> Pol {
        Pol::Term(d.to_string(), a.to_string())
    }

    /// Textbook disjunctive normal form with `x && * = x` and `x || * = *`.
    /// `*` alone is the single empty conjunction.
    pub fn dnf(&self) -> Vec<Conj> {
        match self {
            Pol::Raw(p) => p.dnf_raw(),
            Pol::All => vec![vec![]],
            Pol::Term(d, a) => vec![vec![(d.clone(), a.clone())]],
            Pol::And(l, r) => {
                let (l, r) = (l.dnf(), r.dnf());
                let mut out = vec![];
                for x in &l {
                    for y in &r {
                        let mut c = x.clone();
                        c.extend(y.iter().cloned());
                        out.push(c);
                    }
                }
                out
            }
            Pol::Or(l, r) => {
                let (l, r) = (l.dnf(), r.dnf());
                // `*` absorbs a disjunction.
                if l.iter().any(|c| c.is_empty()) || r.iter().any(|c| c.is_empty()) {
                    return vec![vec![]];
                }
                let mut out = l;
                out.extend(r);
                out
            }
        }
    }

    /// DNF as `AccessPolicy::to_dnf` computes it on a hand-built value: plain distribution, a
    /// broadcast operand of a disjunction stays a clause of its own.
    pub fn dnf_raw(&self) -> Vec<Conj> {
        match self {
            Pol::Raw(p) => p.dnf_raw(),
            Pol::All => vec![vec![]],
            Pol::Term(d, a) => vec![vec![(d.clone(), a.clone())]],
            Pol::And(l, r) => {
                let (l, r) = (l.dnf_raw(), r.dnf_raw());
                let mut out = vec![];
                for x in &l {
                    for y in &r {
                        let mut c = x.clone();
                        c.extend(y.iter().cloned());
                        out.push(c);
                    }
                }
                out
            }
            Pol::Or(l, r) => {
                let mut out = l.dnf_raw();
                out.extend(r.dnf_raw());
                out
            }
        }
    }

    /// Prints the policy in the documented grammar. `style` selects spacing and redundant
    /// parentheses deterministically.
    pub fn print(&self, style: u64) -> String {
        let mut st = style;
        let s = self.print_inner(&mut st, 0, true);
        s
    }

    fn sp(st: &mut u64) -> &'static str {
        *st = st.wrapping_mul(6364136223846793005).wrapping_add(1442695040888963407);
        match (*st >> 33) % 4 {
            0 => "",
            1 | 2 => " ",
            _ => "  ",
        }
    }

    fn coin(st: &mut u64, one_in: u64) -> bool {
        *st = st.wrapping_mul(6364136223846793005).wrapping_add(1442695040888963407);
        (*st >> 33) % one_in == 0
    }

    // prec: 0 = top / inside parentheses, 1 = operand of OR, 2 = operand of AND
    fn print_inner(&self, st: &mut u64, prec: u8, top: bool) -> String {
        let body = match self {
            Pol::Raw(p) => return p.print_inner(st, prec, top),
            Pol::All => {
                if top {
                    return format!("{}*{}", Self::sp(st), Self::sp(st));
                }
                return format!("({}*{})", Self::sp(st), Self::sp(st));
            }
            Pol::Term(d, a) => format!("{}{}::{}{}", Self::sp(st), d, a, Self::sp(st)),
            Pol::And(l, r) => {
                let ls = l.print_inner(st, 2, false);
                let rs = r.print_inner(st, 2, false);
                let s = format!("{ls}{}&&{}{rs}", Self::sp(st), Self::sp(st));
                if prec > 2 {
                    format!("({s})")
                } else {
                    s
                }
            }
            Pol::Or(l, r) => {
                let ls = l.print_inner(st, 1, false);
                let rs = r.print_inner(st, 1, false);
                let s = format!("{ls}{}||{}{rs}", Self::sp(st), Self::sp(st));
                if prec > 1 {
                    format!("{}({s}){}", Self::sp(st), Self::sp(st))
                } else {
                    s
                }
            }
        };
        if Self::coin(st, 6) {
            format!("{}({body}){}", Self::sp(st), Self::sp(st))
        } else {
            body
        }
    }

    pub fn size(&self) -> usize {
        match self {
            Pol::All | Pol::Term(..) => 1,
            Pol::And(l, r) | Pol::Or(l, r) => 1 + l.size() + r.size(),
            Pol::Raw(p) => p.size(),
        }
    }
}

// ---------------------------------------------------------------------------------------------
// Access structure
// ---------------------------------------------------------------------------------------------

#[derive(Clone, Debug, PartialEq, Eq, Serialize, Deserialize)]
pub struct MAttr {
    pub ident: Ident,
    pub name: String,
    pub hybrid: bool,
    pub disabled: bool,
}

#[derive(Clone, Debug, PartialEq, Eq, Serialize, Deserialize)]
pub struct MDim {
    pub name: String,
    pub hierarchy: bool,
    /// Hierarchy: lowest rank first. Anarchy: insertion order (irrelevant).
    pub attrs: Vec<MAttr>,
}

#[derive(Clone, Debug, Default, PartialEq, Eq, Serialize, Deserialize)]
pub struct MStruct {
    pub dims: Vec<MDim>,
}

#[derive(Clone, Copy, Debug, PartialEq, Eq)]
pub enum PolErr {
    UnknownDimension,
    UnknownAttribute,
    /// A conjunction names one dimension twice: meaning not specified for user policies.
    RepeatedDimension,
}

impl MStruct {
    pub fn dim(&self, name: &str) -> Option<&MDim> {
        self.dims.iter().find(|d| d.name == name)
    }
    pub fn dim_mut(&mut self, name: &str) -> Option<&mut MDim> {
        self.dims.iter_mut().find(|d| d.name == name)
    }
    pub fn attr(&self, d: &str, a: &str) -> Option<&MAttr> {
        self.dim(d).and_then(|d| d.attrs.iter().find(|x| x.name == a))
    }
    pub fn attr_by_ident(&self, id: Ident) -> Option<(&MDim, &MAttr)> {
        for d in &self.dims {
            for a in &d.attrs {
                if a.ident == id {
                    return Some((d, a));
                }
            }
        }
        None
    }
    pub fn n_attrs(&self) -> usize {
        self.dims.iter().map(|d| d.attrs.len()).sum()
    }
    pub fn all_attrs(&self) -> Vec<(String, String)> {
        let mut v = vec![];
        for d in &self.dims {
            for a in &d.attrs {
                v.push((d.name.clone(), a.name.clone()));
            }
        }
        v
    }

    fn product(options: &[Vec<Ident>]) -> BTreeSet<MRight> {
        let mut acc: Vec<MRight> = vec![BTreeSet::new()];
        for opts in options {
            let mut next = Vec::with_capacity(acc.len() * (opts.len() + 1));
            for r in &acc {
                next.push(r.clone());
                for o in opts {
                    let mut r2 = r.clone();
                    r2.insert(*o);
                    next.push(r2);
                }
            }
            acc = next;
        }
        acc.into_iter().collect()
    }

    /// All rights of the structure (at most one attribute per dimension, possibly none).
    pub fn omega(&self) -> BTreeSet<MRight> {
        let opts: Vec<Vec<Ident>> = self
            .dims
            .iter()
            .map(|d| d.attrs.iter().map(|a| a.ident).collect())
            .collect();
        Self::product(&opts)
    }

    pub fn right_hybrid(&self, r: &MRight) -> bool {
        r.iter()
            .any(|id| self.attr_by_ident(*id).map(|(_, a)| a.hybrid).unwrap_or(false))
    }
    pub fn right_disabled(&self, r: &MRight) -> bool {
        r.iter()
            .any(|id| self.attr_by_ident(*id).map(|(_, a)| a.disabled).unwrap_or(false))
    }

    /// Rights a user key generated for `p` holds: for each conjunction, every right that picks,
    /// in each dimension, nothing, or (dimension named by the conjunction) the named attribute or
    /// a lower one of a hierarchy, or (dimension not named) any attribute.
    pub fn usk_rights(&self, p: &Pol) -> Result<BTreeSet<MRight>, PolErr> {
        let mut out = BTreeSet::new();
        for conj in p.dnf() {
            let mut named: BTreeMap<&str, &str> = BTreeMap::new();
            for (d, a) in &conj {
                let dim = self.dim(d).ok_or(PolErr::UnknownDimension)?;
                if !dim.attrs.iter().any(|x| &x.name == a) {
                    return Err(PolErr::UnknownAttribute);
                }
                if named.insert(d.as_str(), a.as_str()).is_some() {
                    return Err(PolErr::RepeatedDimension);
                }
            }
            let opts: Vec<Vec<Ident>> = self
                .dims
                .iter()
                .map(|d| match named.get(d.name.as_str()) {
                    None => d.attrs.iter().map(|a| a.ident).collect(),
                    Some(a) => {
                        if d.hierarchy {
                            let pos = d.attrs.iter().position(|x| x.name == *a).unwrap();
                            d.attrs[..=pos].iter().map(|x| x.ident).collect()
                        } else {
                            vec![d.attrs.iter().find(|x| x.name == *a).unwrap().ident]
                        }
                    }
                })
                .collect();
            out.extend(Self::product(&opts));
        }
        Ok(out)
    }

    /// Rights targeted by an encryption policy: one per conjunction, the set of its attributes.
    /// The second component tells whether some conjunction names a dimension twice (such a right
    /// never has a key).
    pub fn enc_rights(&self, p: &Pol) -> Result<(BTreeSet<MRight>, bool), PolErr> {
        let mut out = BTreeSet::new();
        let mut malformed = false;
        for conj in p.dnf() {
            let mut r = BTreeSet::new();
            let mut dims_seen = BTreeSet::new();
            for (d, a) in &conj {
                let dim = self.dim(d).ok_or(PolErr::UnknownDimension)?;
                let at = dim
                    .attrs
                    .iter()
                    .find(|x| &x.name == a)
                    .ok_or(PolErr::UnknownAttribute)?;
                if !dims_seen.insert(d.clone()) {
                    malformed = true;
                }
                r.insert(at.ident);
            }
            out.insert(r);
        }
        Ok((out, malformed))
    }

    /// Name-level cover relation of C01/C02: does user conjunction `u` cover encryption
    /// conjunction `e` in this structure?
    pub fn covers(&self, u: &Conj, e: &Conj) -> bool {
        for (d, a) in e {
            let Some(dim) = self.dim(d) else { return false };
            if let Some((_, ua)) = u.iter().find(|(ud, _)| ud == d) {
                if dim.hierarchy {
                    let pa = dim.attrs.iter().position(|x| &x.name == a);
                    let pu = dim.attrs.iter().position(|x| &x.name == ua);
                    match (pa, pu) {
                        (Some(pa), Some(pu)) if pa <= pu => {}
                        _ => return false,
                    }
                } else if ua != a {
                    return false;
                }
            }
        }
        true
    }

    pub fn policy_covers(&self, user: &Pol, enc: &Pol) -> bool {
        let ud = user.dnf();
        let ed = enc.dnf();
        ed.iter().any(|e| ud.iter().any(|u| self.covers(u, e)))
    }
}

// ---------------------------------------------------------------------------------------------
// Keys
// ---------------------------------------------------------------------------------------------

#[derive(Clone, Debug, PartialEq, Eq)]
pub struct MChain {
    /// Newest first.
    pub revs: Vec<Rev>,
    pub hybrid: bool,
    /// The newest secret is not published in MPKs.
    pub enc_disabled: bool,
}

#[derive(Clone, Debug, Default)]
pub struct MMsk {
    pub structure: MStruct,
    pub secrets: BTreeMap<MRight, MChain>,
    /// Key handles whose identifier this MSK knows.
    pub known_users: BTreeSet<u64>,
    /// Tracing epoch: number of times the tracing level of this MSK was raised. A key whose
    /// identifier was made in another epoch gets a new identifier at its next refresh (the old
    /// one is forgotten). Registration tokens are `kid | epoch << 48` (see `MUsk::token`).
    pub tl: u32,
    pub next_ident: Ident,
    pub next_rev: Rev,
    /// Every attribute identity that ever existed with the id the SUT gave it.
    pub sut_ids: BTreeMap<Ident, u64>,
}

#[derive(Clone, Debug, PartialEq, Eq)]
pub struct MMpk {
    pub version: u64,
    pub structure: MStruct,
    pub keys: BTreeMap<MRight, (Rev, bool)>,
}

#[derive(Clone, Debug, PartialEq, Eq)]
pub struct MUsk {
    pub kid: u64,
    pub version: u32,
    pub rights: BTreeMap<MRight, Vec<Rev>>,
    /// Hybrid flag per right (as held by the key).
    pub hybrid: BTreeMap<MRight, bool>,
    /// Refreshed against an MSK state that was later rolled back: further refresh unspecified.
    pub unspecified: bool,
    /// Tracing epoch in which the identifier of this key was made.
    pub tl: u32,
}

#[derive(Clone, Debug, PartialEq, Eq)]
pub struct MEnc {
    pub targets: BTreeMap<MRight, Rev>,
    pub hybrid: bool,
}

#[derive(Clone, Copy, Debug, PartialEq, Eq)]
pub enum EditErr {
    UnknownDimension,
    UnknownAttribute,
    Duplicate,
    UnknownAfter,
}

impl MMsk {
    pub fn new() -> Self {
        let mut m = MMsk::default();
        // `setup` gives the empty structure its single right (broadcast).
        m.next_rev = 1;
        let rev = m.fresh_rev();
        m.secrets.insert(
            BTreeSet::new(),
            MChain {
                revs: vec![rev],
                hybrid: false,
                enc_disabled: false,
            },
        );
        m
    }

    fn fresh_rev(&mut self) -> Rev {
        let r = self.next_rev;
        self.next_rev += 1;
        r
    }

    // ---- structure edits (applied directly on msk.access_structure by applications) ----

    pub fn add_dimension(&mut self, name: &str, hierarchy: bool) -> Result<(), EditErr> {
        if self.structure.dim(name).is_some() {
            return Err(EditErr::Duplicate);
        }
        self.structure.dims.push(MDim {
            name: name.to_string(),
            hierarchy,
            attrs: vec![],
        });
        Ok(())
    }

    pub fn del_dimension(&mut self, name: &str) -> Result<(), EditErr> {
        let n = self.structure.dims.len();
        self.structure.dims.retain(|d| d.name != name);
        if self.structure.dims.len() == n {
            Err(EditErr::UnknownDimension)
        } else {
            Ok(())
        }
    }

    pub fn add_attribute(
        &mut self,
        dim: &str,
        name: &str,
        hybrid: bool,
        after: Option<&str>,
    ) -> Result<Ident, EditErr> {
        let ident = self.next_ident;
        let d = self
            .structure
            .dim_mut(dim)
            .ok_or(EditErr::UnknownDimension)?;
        if d.attrs.iter().any(|a| a.name == name) {
            return Err(EditErr::Duplicate);
        }
        let attr = MAttr {
            ident,
            name: name.to_string(),
            hybrid,
            disabled: false,
        };
        if d.hierarchy {
            match after {
                Some(after) => {
                    let pos = d
                        .attrs
                        .iter()
                        .position(|a| a.name == after)
                        .ok_or(EditErr::UnknownAfter)?;
                    d.attrs.insert(pos + 1, attr);
                }
                None => d.attrs.insert(0, attr),
            }
        } else {
            d.attrs.push(attr);
        }
        self.next_ident += 1;
        Ok(ident)
    }

    pub fn del_attribute(&mut self, dim: &str, name: &str) -> Result<(), EditErr> {
        let d = self
            .structure
            .dim_mut(dim)
            .ok_or(EditErr::UnknownDimension)?;
        let n = d.attrs.len();
        d.attrs.retain(|a| a.name != name);
        if d.attrs.len() == n {
            Err(EditErr::UnknownAttribute)
        } else {
            Ok(())
        }
    }

    pub fn rename_attribute(&mut self, dim: &str, name: &str, new: &str) -> Result<(), EditErr> {
        let d = self
            .structure
            .dim_mut(dim)
            .ok_or(EditErr::UnknownDimension)?;
        if d.attrs.iter().any(|a| a.name == new) {
            // Renaming onto an existing name (including its own) is a duplicate.
            return Err(EditErr::Duplicate);
        }
        let a = d
            .attrs
            .iter_mut()
            .find(|a| a.name == name)
            .ok_or(EditErr::UnknownAttribute)?;
        a.name = new.to_string();
        Ok(())
    }

    pub fn disable_attribute(&mut self, dim: &str, name: &str) -> Result<(), EditErr> {
        let d = self
            .structure
            .dim_mut(dim)
            .ok_or(EditErr::UnknownDimension)?;
        let a = d
            .attrs
            .iter_mut()
            .find(|a| a.name == name)
            .ok_or(EditErr::UnknownAttribute)?;
        a.disabled = true;
        Ok(())
    }

    // ---- master-key operations ----

    /// Would `update` fail (a right that must be created contains a disabled attribute)?
    pub fn update_would_fail(&self) -> bool {
        self.structure
            .omega()
            .iter()
            .any(|r| !self.secrets.contains_key(r) && self.structure.right_disabled(r))
    }

    pub fn update(&mut self) -> Result<(), ()> {
        if self.update_would_fail() {
            return Err(());
        }
        let omega = self.structure.omega();
        self.secrets.retain(|r, _| omega.contains(r));
        for r in omega {
            let disabled = self.structure.right_disabled(&r);
            if let Some(chain) = self.secrets.get_mut(&r) {
                chain.enc_disabled = disabled;
            } else {
                let rev = self.fresh_rev();
                let hybrid = self.structure.right_hybrid(&r);
                self.secrets.insert(
                    r,
                    MChain {
                        revs: vec![rev],
                        hybrid,
                        enc_disabled: false,
                    },
                );
            }
        }
        Ok(())
    }

    pub fn rekey(&mut self, p: &Pol) -> Result<BTreeSet<MRight>, ()> {
        let t = self.structure.usk_rights(p).map_err(|_| ())?;
        if !t.iter().all(|r| self.secrets.contains_key(r)) {
            return Err(());
        }
        for r in &t {
            let rev = self.fresh_rev();
            self.secrets.get_mut(r).unwrap().revs.insert(0, rev);
        }
        Ok(t)
    }

    pub fn prune(&mut self, p: &Pol) -> Result<BTreeSet<MRight>, ()> {
        let t = self.structure.usk_rights(p).map_err(|_| ())?;
        for r in &t {
            if let Some(c) = self.secrets.get_mut(r) {
                c.revs.truncate(1);
            }
        }
        Ok(t)
    }

    pub fn mpk(&self, version: u64) -> MMpk {
        MMpk {
            version,
            structure: self.structure.clone(),
            keys: self
                .secrets
                .iter()
                .filter(|(_, c)| !c.enc_disabled)
                .map(|(r, c)| (r.clone(), (c.revs[0], c.hybrid)))
                .collect(),
        }
    }

    pub fn keygen(&mut self, kid: u64, p: &Pol) -> Result<MUsk, ()> {
        let t = self.structure.usk_rights(p).map_err(|_| ())?;
        if !t.iter().all(|r| self.secrets.contains_key(r)) {
            return Err(());
        }
        self.known_users.insert(kid | (self.tl as u64) << 48);
        Ok(MUsk {
            tl: self.tl,
            kid,
            version: 0,
            rights: t
                .iter()
                .map(|r| (r.clone(), vec![self.secrets[r].revs[0]]))
                .collect(),
            hybrid: t
                .iter()
                .map(|r| (r.clone(), self.secrets[r].hybrid))
                .collect(),
            unspecified: false,
        })
    }

    /// Refresh of an issued, untampered key. `Err` iff this MSK does not know the identifier.
    pub fn refresh(&self, usk: &MUsk, keep: bool) -> Result<MUsk, ()> {
        if !self.known_users.contains(&usk.token()) {
            return Err(());
        }
        let mut rights = BTreeMap::new();
        let mut hybrid = BTreeMap::new();
        for (r, chain) in &usk.rights {
            let Some(m) = self.secrets.get(r) else { continue };
            let new_chain: Vec<Rev> = if keep {
                let oldest = *chain.last().unwrap();
                m.revs.iter().copied().filter(|v| *v >= oldest).collect()
            } else {
                vec![m.revs[0]]
            };
            if new_chain.is_empty() {
                // Cannot happen while revisions only grow and pruning keeps the newest.
                continue;
            }
            rights.insert(r.clone(), new_chain);
            hybrid.insert(r.clone(), m.hybrid);
        }
        Ok(MUsk {
            tl: usk.tl,
            kid: usk.kid,
            version: usk.version + 1,
            rights,
            hybrid,
            unspecified: usk.unspecified,
        })
    }
}

impl MMpk {
    pub fn encaps(&self, p: &Pol) -> Result<MEnc, ()> {
        let (rights, _malformed) = self.structure.enc_rights(p).map_err(|_| ())?;
        let mut targets = BTreeMap::new();
        let mut hybrid = true;
        for r in rights {
            let (rev, h) = self.keys.get(&r).ok_or(())?;
            hybrid &= *h;
            targets.insert(r, *rev);
        }
        Ok(MEnc { targets, hybrid })
    }

    pub fn encaps_rights(&self, rights: &BTreeSet<MRight>) -> Result<MEnc, ()> {
        let mut targets = BTreeMap::new();
        let mut hybrid = true;
        for r in rights {
            let (rev, h) = self.keys.get(r).ok_or(())?;
            hybrid &= *h;
            targets.insert(r.clone(), *rev);
        }
        Ok(MEnc { targets, hybrid })
    }
}

impl MUsk {
    /// What the MSK records for this key (the handle, qualified by the epoch of its identifier).
    pub fn token(&self) -> u64 {
        self.kid | (self.tl as u64) << 48
    }

    pub fn opens(&self, enc: &MEnc) -> bool {
        enc.targets
            .iter()
            .any(|(r, v)| self.rights.get(r).map(|c| c.contains(v)).unwrap_or(false))
    }
    /// Why it opens / does not open, for signatures.
    pub fn explain(&self, enc: &MEnc) -> &'static str {
        let mut holds_right = false;
        for (r, v) in &enc.targets {
            if let Some(c) = self.rights.get(r) {
                holds_right = true;
                if c.contains(v) {
                    return if c[0] == *v {
                        "holds-newest-revision"
                    } else {
                        "holds-older-revision"
                    };
                }
            }
        }
        if holds_right {
            "holds-right-not-revision"
        } else {
            "no-common-right"
        }
    }
    pub fn chain_shape(&self) -> Vec<usize> {
        let mut v: Vec<usize> = self.rights.values().map(|c| c.len()).collect();
        v.sort_unstable();
        v
    }
}

impl MMsk {
    /// Rights of `enc` the master key can still open (its revision is still in the chain).
    pub fn openable(&self, enc: &MEnc) -> BTreeSet<MRight> {
        enc.targets
            .iter()
            .filter(|(r, v)| {
                self.secrets
                    .get(*r)
                    .map(|c| c.revs.contains(v))
                    .unwrap_or(false)
            })
            .map(|(r, _)| r.clone())
            .collect()
    }
}
